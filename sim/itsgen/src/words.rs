//! ITS payload words (80 bit, ID in byte 9): builders and an independent decoder, written from the
//! documented field layouts (DESIGN.md appendix A).

pub const ID_IHW: u8 = 0xE0;
pub const ID_TDH: u8 = 0xE8;
pub const ID_TDT: u8 = 0xF0;
pub const ID_DDW0: u8 = 0xE4;
pub const ID_CDW: u8 = 0xF8;

pub type Word = [u8; 10];

#[derive(Clone, Copy, Debug, PartialEq, Eq, Hash)]
pub enum Kind {
    Ihw,
    Tdh,
    Tdt,
    Ddw0,
    Cdw,
    Data,
    Unknown,
}

pub fn is_data_id(id: u8) -> bool {
    matches!(id, 0x20..=0x28 | 0x40..=0x46 | 0x48..=0x4E | 0x50..=0x56 | 0x58..=0x5E)
}

pub fn kind_of_id(id: u8) -> Kind {
    match id {
        ID_IHW => Kind::Ihw,
        ID_TDH => Kind::Tdh,
        ID_TDT => Kind::Tdt,
        ID_DDW0 => Kind::Ddw0,
        ID_CDW => Kind::Cdw,
        x if is_data_id(x) => Kind::Data,
        _ => Kind::Unknown,
    }
}

pub fn ihw(active_lanes: u32) -> Word {
    let mut w = [0u8; 10];
    w[0..4].copy_from_slice(&(active_lanes & 0x0FFF_FFFF).to_le_bytes());
    w[9] = ID_IHW;
    w
}

#[derive(Clone, Copy, Debug, PartialEq, Eq)]
pub struct Tdh {
    pub trigger_type: u16, // 12 bits
    pub internal: bool,
    pub no_data: bool,
    pub continuation: bool,
    pub bc: u16, // 12 bits
    pub orbit: u32,
}

impl Tdh {
    pub fn word(&self) -> Word {
        let mut w = [0u8; 10];
        let f: u16 = (self.trigger_type & 0xFFF)
            | ((self.internal as u16) << 12)
            | ((self.no_data as u16) << 13)
            | ((self.continuation as u16) << 14);
        w[0..2].copy_from_slice(&f.to_le_bytes());
        w[2..4].copy_from_slice(&(self.bc & 0xFFF).to_le_bytes());
        w[4..8].copy_from_slice(&self.orbit.to_le_bytes());
        w[9] = ID_TDH;
        w
    }
    pub fn from_word(w: &[u8]) -> Tdh {
        let f = u16::from_le_bytes([w[0], w[1]]);
        Tdh {
            trigger_type: f & 0xFFF,
            internal: f & (1 << 12) != 0,
            no_data: f & (1 << 13) != 0,
            continuation: f & (1 << 14) != 0,
            bc: u16::from_le_bytes([w[2], w[3]]) & 0xFFF,
            orbit: u32::from_le_bytes([w[4], w[5], w[6], w[7]]),
        }
    }
}

#[derive(Clone, Copy, Debug, PartialEq, Eq)]
pub struct Tdt {
    pub lane_status: u64, // 56 bits
    pub timeout_to_start: bool,
    pub timeout_start_stop: bool,
    pub timeout_in_idle: bool,
    pub packet_done: bool,
    pub transmission_timeout: bool,
    pub lane_starts_violation: bool,
}

impl Tdt {
    pub fn word(&self) -> Word {
        let mut w = [0u8; 10];
        let ls = self.lane_status & 0x00FF_FFFF_FFFF_FFFF;
        w[0..7].copy_from_slice(&ls.to_le_bytes()[0..7]);
        w[7] = ((self.timeout_to_start as u8) << 7)
            | ((self.timeout_start_stop as u8) << 6)
            | ((self.timeout_in_idle as u8) << 5);
        w[8] = (self.packet_done as u8)
            | ((self.transmission_timeout as u8) << 1)
            | ((self.lane_starts_violation as u8) << 3);
        w[9] = ID_TDT;
        w
    }
    pub fn from_word(w: &[u8]) -> Tdt {
        let mut ls = [0u8; 8];
        ls[0..7].copy_from_slice(&w[0..7]);
        Tdt {
            lane_status: u64::from_le_bytes(ls),
            timeout_to_start: w[7] & 0x80 != 0,
            timeout_start_stop: w[7] & 0x40 != 0,
            timeout_in_idle: w[7] & 0x20 != 0,
            packet_done: w[8] & 1 != 0,
            transmission_timeout: w[8] & 2 != 0,
            lane_starts_violation: w[8] & 8 != 0,
        }
    }
}

pub fn ddw0(lane_status: u64, transmission_timeout: bool, lane_starts_violation: bool) -> Word {
    let mut w = [0u8; 10];
    let ls = lane_status & 0x00FF_FFFF_FFFF_FFFF;
    w[0..7].copy_from_slice(&ls.to_le_bytes()[0..7]);
    w[8] = ((transmission_timeout as u8) << 1) | ((lane_starts_violation as u8) << 3);
    w[9] = ID_DDW0;
    w
}

pub fn cdw(user_field: u64, index: u32) -> Word {
    let mut w = [0u8; 10];
    let uf = user_field & 0xFFFF_FFFF_FFFF;
    w[0..6].copy_from_slice(&uf.to_le_bytes()[0..6]);
    w[6..8].copy_from_slice(&((index & 0xFFFF) as u16).to_le_bytes());
    w[8] = ((index >> 16) & 0xFF) as u8;
    w[9] = ID_CDW;
    w
}

pub fn data_word(id: u8, nine: &[u8]) -> Word {
    let mut w = [0u8; 10];
    w[0..9].copy_from_slice(&nine[0..9]);
    w[9] = id;
    w
}

/// Data-word ID of inner-barrel lane n (0..=8).
pub fn ib_lane_id(lane: u8) -> u8 {
    0x20 | (lane & 0x1F)
}

/// Data-word ID of outer-barrel lane n (0..=27): connector = n / 7, input = n % 7.
pub fn ob_lane_id(lane: u8) -> u8 {
    0x40 | ((lane / 7) << 3) | (lane % 7)
}

/// Lane number (bit index in IHW active lanes) of a data-word ID, by barrel of the ID.
pub fn lane_of_id(id: u8) -> u8 {
    if id >> 5 == 0b001 {
        id & 0x1F
    } else {
        let conn = (id >> 3) & 0x3;
        conn * 7 + (id & 0x7)
    }
}
