//! itsgen: model of the system upstream of fastPASTA (readout units + CRU merge), stream-fault
//! catalogue, independent chain walker / decoder and reference models. See DESIGN.md §2.4.
pub mod alpide;
pub mod gen;
pub mod rdh;
pub mod walker;
pub mod words;
pub mod corrupt;
pub mod models;
pub mod rdhwalk;
pub mod faults;
pub mod alpide_model;
