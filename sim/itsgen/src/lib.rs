//! upstream model
