//! Reference verdict for stave-level ALPIDE readout frames, written from the documented rules
//! (doc/checks_list.md "Stave & ALPIDE checks"; README error codes): number of lanes per barrel
//! (fewer only by lanes that announced a fatal state earlier), inner lane groups, one bunch counter
//! for all chips of all lanes, inner chip ID == lane.

use crate::alpide::LaneFrame;
use crate::gen::{Barrel, FrameSpec};
use crate::words::lane_of_id;

#[derive(Clone, Debug, Default, PartialEq)]
pub struct FrameTruth {
    /// lane count / inner grouping rule broken
    pub lanes_rule: bool,
    /// at least one lane (or the lanes among each other) inconsistent
    pub lane_errors: bool,
    pub e9003: bool,
    pub e9004: bool,
    pub e9005: bool,
    /// frame without any data word
    pub empty: bool,
    /// the frame in which a lane announces a fatal state: the documentation does not say whether the
    /// announcing lane still counts; not judged
    pub dont_care: bool,
}

/// Readout-flag counters over all chip trailers: [trailers, busy_violation, data_overrun,
/// transmission_in_fatal, flushed_incomplete, strobe_extended, busy_transitions].
pub fn flags_truth(frames: &[FrameSpec]) -> [u64; 7] {
    let mut t = [0u64; 7];
    for f in frames {
        for l in &f.lanes {
            for c in l.chips.iter().filter(|c| !c.empty) {
                t[0] += 1;
                match c.flags & 0xF {
                    0b1000 => t[1] += 1,
                    0b1100 => t[2] += 1,
                    0b1110 => t[3] += 1,
                    v => {
                        t[4] += ((v & 0b100) != 0) as u64;
                        t[5] += ((v & 0b010) != 0) as u64;
                        t[6] += ((v & 0b001) != 0) as u64;
                    }
                }
            }
        }
    }
    t
}

fn lane_inconsistent(l: &LaneFrame, barrel: Barrel, t: &mut FrameTruth) -> bool {
    let mut bad = false;
    if l.chips.is_empty() {
        t.e9003 = true; // no chip data at all: no bunch counter to validate
        bad = true;
    }
    // the same chip twice in one lane
    for (i, c) in l.chips.iter().enumerate() {
        if l.chips[..i].iter().any(|d| d.id == c.id) {
            bad = true;
        }
    }
    // unique chips (first occurrence) must share one bunch counter
    let mut uniq: Vec<(u8, u8)> = Vec::new();
    for c in &l.chips {
        if !uniq.iter().any(|(id, _)| *id == c.id) {
            uniq.push((c.id, c.bc));
        }
    }
    if uniq.iter().any(|(_, bc)| *bc != uniq[0].1) {
        t.e9003 = true;
        bad = true;
    }
    if barrel == Barrel::Inner {
        if uniq.len() != 1 {
            t.e9004 = true;
            bad = true;
        } else if uniq[0].0 != lane_of_id(l.lane_id) {
            t.e9005 = true;
            bad = true;
        }
    }
    bad
}

pub fn judge(barrel: Barrel, frames: &[FrameSpec]) -> Vec<FrameTruth> {
    let base = match barrel {
        Barrel::Inner => 3usize,
        Barrel::Middle => 8,
        Barrel::Outer => 14,
    };
    let mut fatal: Vec<u8> = Vec::new();
    let mut out = Vec::new();
    for f in frames {
        let mut t = FrameTruth::default();
        if f.lanes.is_empty() {
            t.empty = true;
            out.push(t);
            continue;
        }
        let announcing: Vec<u8> = f.lanes.iter().filter(|l| l.fatal_ape.is_some()).map(|l| lane_of_id(l.lane_id)).collect();
        if !announcing.is_empty() {
            t.dont_care = true;
            fatal.extend(announcing);
            out.push(t);
            continue;
        }
        let expected = base.saturating_sub(fatal.len());
        let mut lanes: Vec<u8> = f.lanes.iter().map(|l| lane_of_id(l.lane_id)).collect();
        lanes.sort_unstable();
        if lanes.len() != expected {
            t.lanes_rule = true;
        } else if barrel == Barrel::Inner {
            let groups: [[u8; 3]; 3] = [[0, 1, 2], [3, 4, 5], [6, 7, 8]];
            let ok = groups.iter().any(|g| {
                let want: Vec<u8> = g.iter().copied().filter(|x| !fatal.contains(x)).collect();
                want == lanes
            });
            if !ok {
                t.lanes_rule = true;
            }
        }
        let mut validated: Vec<u8> = Vec::new();
        for l in &f.lanes {
            if lane_inconsistent(l, barrel, &mut t) {
                t.lane_errors = true;
            } else {
                validated.push(l.chips[0].bc);
            }
        }
        if validated.iter().any(|b| *b != validated[0]) {
            t.lane_errors = true;
        }
        out.push(t);
    }
    out
}
