//! Independent chain walker / decoder: the oracle for offsets, filters, statistics and views.
//! Written from the framing rules (64-byte little-endian RDH, offset-to-next walk, payload slicing
//! per data format), not from the tool's scanner.

use crate::rdh::{layer_stave_match, Rdh};
use std::ops::Range;

#[derive(Clone, Debug)]
pub struct Pkt {
    /// Byte offset of the RDH in the stream.
    pub off: usize,
    pub rdh: Rdh,
    /// Payload byte range in the stream (clamped to the stream length).
    pub payload: Range<usize>,
    /// The whole packet (header + payload by memory size) is present.
    pub complete: bool,
}

#[derive(Clone, Debug, PartialEq)]
pub enum WalkEnd {
    /// Ended exactly at a packet boundary.
    Clean,
    /// Fewer than 64 bytes left at this offset.
    TruncatedHeader(usize),
    /// Header at this offset is complete but its payload is cut.
    TruncatedPayload(usize),
    /// offset-to-next outside [64, 10064] at this offset (a fatal framing error for the tool).
    BadOffset(usize),
}

#[derive(Clone, Debug)]
pub struct Walk {
    pub pkts: Vec<Pkt>,
    pub end: WalkEnd,
}

pub fn walk(data: &[u8]) -> Walk {
    let mut pkts = Vec::new();
    let mut pos = 0usize;
    let end;
    loop {
        if pos == data.len() {
            end = WalkEnd::Clean;
            break;
        }
        if data.len() - pos < 64 {
            end = WalkEnd::TruncatedHeader(pos);
            break;
        }
        let rdh = Rdh::from_bytes(&data[pos..pos + 64]);
        let next = rdh.offset_next as i64 - 64;
        if !(0..=10_000).contains(&next) {
            end = WalkEnd::BadOffset(pos);
            // the tool still counts this RDH as seen, but nothing of it is forwarded
            break;
        }
        let pstart = pos + 64;
        let pend_want = pos + (rdh.memory_size as usize).max(64);
        let pend = pend_want.min(data.len());
        let complete = pend_want <= data.len() && pos + rdh.offset_next as usize <= data.len();
        pkts.push(Pkt { off: pos, rdh: rdh.clone(), payload: pstart..pend.max(pstart.min(data.len())), complete });
        if pend_want > data.len() {
            end = WalkEnd::TruncatedPayload(pos);
            break;
        }
        pos += rdh.offset_next as usize;
        if pos > data.len() {
            end = WalkEnd::TruncatedPayload(pkts.last().unwrap().off);
            break;
        }
    }
    Walk { pkts, end }
}

#[derive(Clone, Copy, Debug, PartialEq)]
pub enum Filter {
    None,
    Link(u8),
    Fee(u16),
    Stave(u16),
}

impl Filter {
    pub fn matches(&self, r: &Rdh) -> bool {
        match *self {
            Filter::None => true,
            Filter::Link(l) => r.link_id == l,
            Filter::Fee(f) => r.fee_id == f,
            Filter::Stave(f) => layer_stave_match(r.fee_id, f),
        }
    }
    /// Command-line arguments selecting this filter.
    pub fn args(&self) -> Vec<String> {
        match *self {
            Filter::None => vec![],
            Filter::Link(l) => vec!["-f".into(), l.to_string()],
            Filter::Fee(f) => vec!["-F".into(), f.to_string()],
            Filter::Stave(f) => {
                vec!["-s".into(), format!("L{}_{}", (f >> 12) & 7, f & 0x3F)]
            }
        }
    }
}

#[derive(Clone, Debug, PartialEq)]
pub struct WordAt {
    /// Offset of the word (slot start) in the stream.
    pub off: usize,
    pub bytes: [u8; 10],
}

/// Cut a payload into 80-bit words as its data format prescribes. `base` is the stream offset of
/// the payload's first byte. Format 0: 16-byte slots whose first 10 bytes are the word. Other
/// formats: consecutive 10-byte words followed by at most 15 bytes of 0xFF padding (a longer 0xFF
/// tail is the documented padding error: `Err(len of the 0xFF run)`).
pub fn payload_words(payload: &[u8], data_format: u8, base: usize) -> Result<Vec<WordAt>, usize> {
    let ff = payload.iter().rev().take_while(|&&b| b == 0xFF).count();
    if ff > 15 {
        return Err(ff);
    }
    let mut v = Vec::new();
    if data_format == 0 {
        let mut i = 0;
        while i + 16 <= payload.len() {
            let mut w = [0u8; 10];
            w.copy_from_slice(&payload[i..i + 10]);
            v.push(WordAt { off: base + i, bytes: w });
            i += 16;
        }
    } else {
        // the ID byte of a word is never 0xFF in well-formed data, so the 0xFF run is padding;
        // words are the 10-byte chunks of what precedes it (a remainder < 10 is padding too)
        let body = payload.len() - ff;
        let nwords = if ff > 9 { body / 10 } else { payload.len() / 10 };
        for k in 0..nwords {
            let i = k * 10;
            let mut w = [0u8; 10];
            w.copy_from_slice(&payload[i..i + 10]);
            v.push(WordAt { off: base + i, bytes: w });
        }
    }
    Ok(v)
}

/// Ground-truth statistics of a well-framed stream under a filter.
#[derive(Clone, Debug, Default, PartialEq)]
pub struct TruthStats {
    pub rdhs_seen: u64,
    pub rdhs_filtered: u64,
    pub payload_size: u64,
    pub links: Vec<u8>,    // sorted ascending
    pub fee_ids: Vec<u16>, // first-seen order
    pub hbfs: u64,         // stop-bit packets among analysed packets
    pub layer_staves: Vec<(u8, u8)>,
    pub run_trigger_type: u32,
    pub rdh_version: u8,
    pub data_format: u8,
    pub system_id: u8,
}

pub fn truth_stats(w: &Walk, f: Filter) -> TruthStats {
    let mut t = TruthStats::default();
    if let Some(first) = w.pkts.first() {
        t.run_trigger_type = first.rdh.trigger_type;
        t.rdh_version = first.rdh.version;
        t.data_format = first.rdh.data_format;
        t.system_id = first.rdh.system_id;
    }
    for p in &w.pkts {
        t.rdhs_seen += 1;
        if !t.links.contains(&p.rdh.link_id) {
            t.links.push(p.rdh.link_id);
        }
        if !t.fee_ids.contains(&p.rdh.fee_id) {
            t.fee_ids.push(p.rdh.fee_id);
        }
        if f.matches(&p.rdh) {
            if f != Filter::None {
                t.rdhs_filtered += 1;
            }
            t.payload_size += p.rdh.payload_len() as u64;
            if p.rdh.stop_bit == 1 {
                t.hbfs += 1;
            }
            let ls = (p.rdh.layer(), p.rdh.stave());
            if !t.layer_staves.contains(&ls) {
                t.layer_staves.push(ls);
            }
        }
    }
    t.links.sort_unstable();
    t
}
