//! Stream-fault catalogue (DESIGN.md appendix B): one or more entries per rule of
//! doc/checks_list.md and per error-code family of README.md. Each entry alters a conforming stream
//! so that one documented rule is broken and says what the documentation promises: the code family,
//! the byte offset (of the offending RDH or word) and the modes in which the rule is active.

use crate::gen::{Stream, WordInfo};
use crate::words::{self, Kind, Tdh, Tdt};
use fpsim_rt::rng::Rng;

#[derive(Clone, Debug, PartialEq)]
pub struct Expect {
    /// Any of these codes satisfies the expectation ("" = the code-less payload error message).
    pub codes: Vec<&'static str>,
    /// Stream offset where the message must be located.
    pub offset: u64,
    /// Active in `check sanity` (S) / `check all` (A).
    pub sanity: bool,
    pub all: bool,
    /// Needs target `its` or `its-stave`.
    pub needs_its: bool,
    /// `its-stave` only.
    pub stave_only: bool,
}

#[derive(Clone, Debug)]
pub struct Applied {
    pub name: &'static str,
    pub expects: Vec<Expect>,
    /// A purely stateful RDH violation: `check sanity` (any target) must report nothing.
    pub silent_in_sanity: bool,
    /// A packet-level violation: `check sanity` without target must report nothing.
    pub silent_in_sanity_no_target: bool,
}

pub const FAULTS: [&str; 56] = [
    "rdh_version",
    "rdh_header_size",
    "fee_reserved",
    "fee_stave",
    "fee_layer",
    "rdh_priority",
    "rdh0_reserved",
    "rdh_bc",
    "rdh1_reserved",
    "rdh_stop_bit_2",
    "rdh_trigger_zero",
    "rdh_trigger_spare",
    "rdh2_reserved",
    "rdh_detector_field",
    "rdh3_reserved",
    "rdh_dw",
    "rdh_data_format",
    "rdh_system_id",
    "packet_loss",
    "packet_duplication",
    "packet_reorder",
    "page_counter_edit",
    "stop_bit_set_mid_hbf",
    "stop_bit_cleared_on_last_page",
    "orbit_kept_after_stop",
    "orbit_edit_page_n",
    "trigger_edit_page_n",
    "fee_edit_page_n",
    "ihw_id",
    "ihw_reserved",
    "tdh_id_after_ihw",
    "tdh_reserved",
    "tdh_no_trigger",
    "tdh_id_choice_state",
    "tdh_reserved_continuation",
    "tdh_id_continuation",
    "tdh_no_trigger_continuation",
    "tdh_reserved_choice_state",
    "tdt_reserved",
    "tdt_id",
    "data_word_id",
    "ddw0_id",
    "ddw0_reserved",
    "ddw0_index",
    "ddw0_on_page_0",
    "tdh_continuation_set",
    "tdh_continuation_cleared",
    "tdh_orbit",
    "tdh_bc_vs_rdh",
    "tdh_trigger_vs_rdh",
    "tdh_bc_decreasing",
    "tdh_continuation_mismatch",
    "cdw_index",
    "lane_not_active",
    "ob_connector_7",
    "excess_padding",
];

pub const STAVE_FAULTS: [&str; 3] = ["frame_lane_missing", "frame_empty", "frame_end_without_start"];

fn ex(codes: &[&'static str], offset: usize, sanity: bool, all: bool, needs_its: bool, stave_only: bool) -> Expect {
    Expect { codes: codes.to_vec(), offset: offset as u64, sanity, all, needs_its, stave_only }
}

/// Index in `order` of packet `p` of link `l`.
fn order_index(s: &Stream, l: usize, p: usize) -> usize {
    s.order.iter().position(|&(a, b)| a == l && b == p).expect("packet in order")
}

fn rdh_off(s: &Stream, l: usize, p: usize) -> usize {
    s.offsets()[order_index(s, l, p)]
}

fn word_off(s: &Stream, l: usize, p: usize, w: usize) -> usize {
    rdh_off(s, l, p) + s.links[l].packets[p].word_offset(w)
}

/// Candidate packets (link, packet) that are not among the first two of their link and not the very
/// first packet of the stream.
fn later_packets(s: &Stream) -> Vec<(usize, usize)> {
    let first = s.order.first().copied();
    let mut v = Vec::new();
    for (l, link) in s.links.iter().enumerate() {
        for p in 2..link.packets.len() {
            if Some((l, p)) != first {
                v.push((l, p));
            }
        }
    }
    v
}

/// (link, packet, word) of every word satisfying `pred(packet words, index)`.
fn find_words(s: &Stream, pred: &dyn Fn(&[WordInfo], usize, &crate::gen::Packet) -> bool) -> Vec<(usize, usize, usize)> {
    let mut v = Vec::new();
    for (l, link) in s.links.iter().enumerate() {
        for (p, pk) in link.packets.iter().enumerate() {
            for w in 0..pk.words.len() {
                if pred(&pk.words, w, pk) {
                    v.push((l, p, w));
                }
            }
        }
    }
    v
}

fn rdh_fault(
    s: &mut Stream,
    rng: &mut Rng,
    name: &'static str,
    needs_its: bool,
    f: &dyn Fn(&mut crate::rdh::Rdh, &mut Rng),
) -> Option<Applied> {
    let c = later_packets(s);
    if c.is_empty() {
        return None;
    }
    let (l, p) = c[rng.usize_below(c.len())];
    f(&mut s.links[l].packets[p].rdh, rng);
    let off = rdh_off(s, l, p);
    Some(Applied {
        name,
        expects: vec![ex(&["E10"], off, true, true, needs_its, false)],
        silent_in_sanity: false,
        silent_in_sanity_no_target: false,
    })
}

fn word_fault(
    s: &mut Stream,
    rng: &mut Rng,
    name: &'static str,
    codes: &[&'static str],
    sanity: bool,
    pred: &dyn Fn(&[WordInfo], usize, &crate::gen::Packet) -> bool,
    f: &dyn Fn(&mut [u8; 10], &mut Rng),
) -> Option<Applied> {
    let c = find_words(s, pred);
    if c.is_empty() {
        return None;
    }
    let (l, p, w) = c[rng.usize_below(c.len())];
    f(&mut s.links[l].packets[p].words[w].word, rng);
    let off = word_off(s, l, p, w);
    Some(Applied {
        name,
        expects: vec![ex(codes, off, sanity, true, true, false)],
        silent_in_sanity: false,
        silent_in_sanity_no_target: false,
    })
}

fn is_first_tdh(ws: &[WordInfo], i: usize) -> bool {
    i == 1 && ws[0].kind == Kind::Ihw && ws[i].kind == Kind::Tdh && !Tdh::from_word(&ws[i].word).continuation
}

fn is_cont_tdh(ws: &[WordInfo], i: usize) -> bool {
    i == 1 && ws[i].kind == Kind::Tdh && Tdh::from_word(&ws[i].word).continuation
}

/// TDH in a choice state: preceded (in the same packet) by a packet_done TDT or a no-data TDH.
fn is_choice_tdh(ws: &[WordInfo], i: usize) -> Option<bool> {
    if i < 2 || ws[i].kind != Kind::Tdh {
        return None;
    }
    match ws[i - 1].kind {
        Kind::Tdt if Tdt::from_word(&ws[i - 1].word).packet_done => Some(true), // after TDT
        Kind::Tdh if Tdh::from_word(&ws[i - 1].word).no_data => Some(false),    // after no-data TDH
        _ => None,
    }
}

/// Apply the catalogue entry `name` to the conforming stream. None if the stream has no place
/// where the fault is applicable.
pub fn apply(s: &mut Stream, name: &'static str, rng: &mut Rng) -> Option<Applied> {
    match name {
        // ---------------- RDH sanity
        "rdh_version" => rdh_fault(s, rng, name, false, &|r, _| r.version = if r.version == 6 { 7 } else { 6 }),
        "rdh_header_size" => rdh_fault(s, rng, name, false, &|r, g| r.header_size = *g.pick(&[0u8, 0x3F, 0x41, 0x80])),
        "fee_reserved" => rdh_fault(s, rng, name, false, &|r, g| r.fee_id |= *g.pick(&[0x8000u16, 0x0800, 0x0400, 0x0080, 0x0040])),
        "fee_stave" => rdh_fault(s, rng, name, false, &|r, g| r.fee_id = (r.fee_id & !0x3F) | g.range(48, 63) as u16),
        "fee_layer" => rdh_fault(s, rng, name, false, &|r, _| r.fee_id |= 0x7000),
        "rdh_priority" => rdh_fault(s, rng, name, false, &|r, g| r.priority = g.range(1, 255) as u8),
        "rdh0_reserved" => rdh_fault(s, rng, name, false, &|r, g| r.rdh0_reserved = 1 << g.below(16)),
        "rdh_bc" => rdh_fault(s, rng, name, false, &|r, g| r.bc = g.range(0xdec, 0xfff) as u16),
        "rdh1_reserved" => rdh_fault(s, rng, name, false, &|r, g| r.rdh1_reserved = 1 << g.below(20)),
        "rdh_stop_bit_2" => rdh_fault(s, rng, name, false, &|r, g| r.stop_bit = g.range(2, 255) as u8),
        "rdh_trigger_zero" => rdh_fault(s, rng, name, false, &|r, _| r.trigger_type = 0),
        "rdh_trigger_spare" => rdh_fault(s, rng, name, false, &|r, g| r.trigger_type |= 1 << g.range(15, 26)),
        "rdh2_reserved" => rdh_fault(s, rng, name, false, &|r, g| r.rdh2_reserved = 1 << g.below(8)),
        "rdh_detector_field" => rdh_fault(s, rng, name, false, &|r, g| r.detector_field |= 1 << g.range(12, 23)),
        "rdh3_reserved" => rdh_fault(s, rng, name, false, &|r, g| r.rdh3_reserved = 1 << g.below(16)),
        "rdh_dw" => rdh_fault(s, rng, name, false, &|r, g| r.dw = g.range(2, 15) as u8),
        "rdh_data_format" => {
            // keep the slot layout the tool assumes for "not format 0" (10-byte words): only on format-2 streams
            if s.links.iter().all(|l| l.packets.iter().all(|p| p.rdh.data_format == 2)) {
                rdh_fault(s, rng, name, false, &|r, g| r.data_format = g.range(3, 255) as u8)
            } else {
                None
            }
        }
        "rdh_system_id" => rdh_fault(s, rng, name, true, &|r, g| r.system_id = *g.pick(&[0u8, 3, 0x21, 0xFF])),
        // ---------------- RDH running (packet level)
        "packet_loss" | "packet_duplication" | "packet_reorder" => {
            // not the first two packets of the link, and a later packet of the link must exist
            let mut c = Vec::new();
            for (l, link) in s.links.iter().enumerate() {
                let n = link.packets.len();
                for p in 2..n.saturating_sub(1) {
                    if name == "packet_reorder" {
                        // adjacent pair inside one HBF
                        if link.packets[p].hbf == link.packets[p + 1].hbf {
                            c.push((l, p));
                        }
                    } else {
                        c.push((l, p));
                    }
                }
            }
            if c.is_empty() {
                return None;
            }
            let (l, p) = c[rng.usize_below(c.len())];
            let idx = order_index(s, l, p);
            let target_off;
            match name {
                "packet_loss" => {
                    // message promised at the next RDH of the link
                    s.order.remove(idx);
                    target_off = rdh_off(s, l, p + 1);
                }
                "packet_duplication" => {
                    // the copy travels right behind the original; message promised at the second copy
                    s.order.insert(idx + 1, (l, p));
                    let offs = s.offsets();
                    target_off = offs[idx + 1];
                }
                _ => {
                    // swap the link's packets p and p+1 in place (their slots in the merge order)
                    let j = order_index(s, l, p + 1);
                    s.order.swap(idx, j);
                    // the first of the swapped pair on the wire is now packet p+1, at slot idx
                    let offs = s.offsets();
                    target_off = offs[idx.min(j)];
                }
            }
            Some(Applied {
                name,
                expects: vec![ex(&["E11"], target_off, false, true, false, false)],
                silent_in_sanity: false,
                silent_in_sanity_no_target: true,
            })
        }
        "page_counter_edit" | "orbit_edit_page_n" | "trigger_edit_page_n" | "fee_edit_page_n" => {
            let mut c = Vec::new();
            for (l, link) in s.links.iter().enumerate() {
                for p in 2..link.packets.len() {
                    if link.packets[p].rdh.pages_counter != 0 {
                        c.push((l, p));
                    }
                }
            }
            if c.is_empty() {
                return None;
            }
            let (mut l, mut p) = c[rng.usize_below(c.len())];
            if name == "fee_edit_page_n" && rng.chance(1, 2) {
                // (the link whose packets come first in a round-robin merge)
                let first: Vec<(usize, usize)> = c.iter().copied().filter(|&(k, _)| k == 0).collect();
                if !first.is_empty() {
                    (l, p) = first[rng.usize_below(first.len())];
                }
            }
            let other_fees: Vec<u16> = s.links.iter().enumerate().filter(|(i, _)| *i != l).map(|(_, k)| k.fee_id).filter(|f| *f != s.links[l].fee_id).collect();
            {
                let r = &mut s.links[l].packets[p].rdh;
                match name {
                    "page_counter_edit" => r.pages_counter = r.pages_counter.wrapping_add(*rng.pick(&[1u16, 2, 7])),
                    "orbit_edit_page_n" => r.orbit = r.orbit.wrapping_add(1 + rng.below(9) as u32),
                    "trigger_edit_page_n" => r.trigger_type ^= 1 << rng.range(0, 14),
                    _ => {
                        // another valid FEE ID - in half of the cases (where there is one) the FEE ID of another link
                        // of the stream: the packet must still be judged against ITS OWN link's previous RDH
                        let old = r.fee_id;
                        if !other_fees.is_empty() && rng.chance(1, 2) {
                            r.fee_id = *rng.pick(&other_fees);
                        } else {
                            loop {
                                let f = crate::rdh::fee_id(rng.below(7) as u8, rng.below(48) as u8, (old >> 8 & 3) as u8);
                                if f != old {
                                    r.fee_id = f;
                                    break;
                                }
                            }
                        }
                    }
                }
                if r.trigger_type == 0 {
                    r.trigger_type = 1;
                }
            }
            Some(Applied {
                name,
                expects: vec![ex(&["E11"], rdh_off(s, l, p), false, true, false, false)],
                silent_in_sanity: true,
                silent_in_sanity_no_target: true,
            })
        }
        "stop_bit_set_mid_hbf" => {
            // a data page that is followed by another page of the same HBF
            let mut c = Vec::new();
            for (l, link) in s.links.iter().enumerate() {
                for p in 2..link.packets.len().saturating_sub(1) {
                    if link.packets[p].rdh.stop_bit == 0 && link.packets[p + 1].hbf == link.packets[p].hbf {
                        c.push((l, p));
                    }
                }
            }
            if c.is_empty() {
                return None;
            }
            let (l, p) = c[rng.usize_below(c.len())];
            s.links[l].packets[p].rdh.stop_bit = 1;
            let mut expects = vec![ex(&["E11"], rdh_off(s, l, p + 1), false, true, false, false)];
            // the IHW of that page is now observed with stop bit 1 (not on continuation pages)
            let ws = &s.links[l].packets[p].words;
            if ws.len() >= 2 && ws[0].kind == Kind::Ihw && !is_cont_tdh(ws, 1) {
                expects.push(ex(&["E12"], word_off(s, l, p, 0), false, true, true, false));
            }
            Some(Applied { name, expects, silent_in_sanity: true, silent_in_sanity_no_target: true })
        }
        "stop_bit_cleared_on_last_page" => {
            let mut c = Vec::new();
            for (l, link) in s.links.iter().enumerate() {
                for p in 2..link.packets.len().saturating_sub(1) {
                    if link.packets[p].rdh.stop_bit == 1 {
                        c.push((l, p));
                    }
                }
            }
            if c.is_empty() {
                return None;
            }
            let (l, p) = c[rng.usize_below(c.len())];
            s.links[l].packets[p].rdh.stop_bit = 0;
            let expects = vec![
                ex(&["E11"], rdh_off(s, l, p + 1), false, true, false, false),
                ex(&["E110"], word_off(s, l, p, 0), false, true, true, false),
            ];
            Some(Applied { name, expects, silent_in_sanity: true, silent_in_sanity_no_target: true })
        }
        "orbit_kept_after_stop" => {
            let mut c = Vec::new();
            for (l, link) in s.links.iter().enumerate() {
                for p in 2..link.packets.len() {
                    if link.packets[p].page == 0 && link.packets[p].hbf > 0 {
                        c.push((l, p));
                    }
                }
            }
            if c.is_empty() {
                return None;
            }
            let (l, p) = c[rng.usize_below(c.len())];
            let prev_orbit = s.links[l].packets[p - 1].rdh.orbit;
            let hbf = s.links[l].packets[p].hbf;
            // the whole HBF keeps the previous orbit (RDHs and TDHs) so that only the documented rule breaks
            for pk in s.links[l].packets.iter_mut().filter(|pk| pk.hbf == hbf) {
                pk.rdh.orbit = prev_orbit;
                for w in pk.words.iter_mut().filter(|w| w.kind == Kind::Tdh) {
                    let mut t = Tdh::from_word(&w.word);
                    t.orbit = prev_orbit;
                    w.word = t.word();
                }
            }
            Some(Applied {
                name,
                expects: vec![ex(&["E11"], rdh_off(s, l, p), false, true, false, false)],
                silent_in_sanity: true,
                silent_in_sanity_no_target: true,
            })
        }
        // ---------------- ITS words: IDs and reserved bits
        "ihw_id" => {
            // The family depends on the state in which the IHW is expected: single-successor states
            // (first page of an HBF, continuation page) report the IHW sanity error, the choice state
            // after a packet_done TDT / a no-data TDH reports an unrecognised ID.
            let c = find_words(s, &|ws, i, _| i == 0 && ws[i].kind == Kind::Ihw);
            if c.is_empty() {
                return None;
            }
            let (l, p, w) = c[rng.usize_below(c.len())];
            let code: &'static str = if s.links[l].packets[p].page == 0 || p == 0 {
                "E30"
            } else {
                match s.links[l].packets[p - 1].words.last() {
                    Some(pw) if pw.kind == Kind::Tdt && !Tdt::from_word(&pw.word).packet_done => "E30",
                    Some(pw) if pw.kind == Kind::Tdh => "E990",
                    _ => "E992",
                }
            };
            s.links[l].packets[p].words[w].word[9] = *rng.pick(&[0xE1u8, 0xE2, 0x00, 0xA0, 0xFE]);
            Some(Applied {
                name,
                expects: vec![ex(&[code], word_off(s, l, p, w), true, true, true, false)],
                silent_in_sanity: false,
                silent_in_sanity_no_target: true,
            })
        }
        "ihw_reserved" => word_fault(s, rng, name, &["E30"], true, &|ws, i, _| i == 0 && ws[i].kind == Kind::Ihw, &|w, g| {
            let bit = g.range(28, 71) as usize;
            w[bit / 8] |= 1 << (bit % 8);
        }),
        "tdh_id_after_ihw" => word_fault(s, rng, name, &["E40"], true, &|ws, i, _| is_first_tdh(ws, i), &|w, g| {
            w[9] = *g.pick(&[0xE9u8, 0xEA, 0x00, 0xE0, 0xF0])
        }),
        "tdh_reserved" => word_fault(s, rng, name, &["E40"], true, &|ws, i, _| is_first_tdh(ws, i), &|w, g| {
            match g.below(3) {
                0 => w[1] |= 0x80,                    // bit 15
                1 => w[3] |= 0x10 << g.below(4),      // bits 31:28
                _ => w[8] |= 1 << g.below(8),         // bits 71:64
            }
        }),
        "tdh_no_trigger" => word_fault(
            s,
            rng,
            name,
            &["E40"],
            true,
            // not on page 0 after the IHW with an RDH that needs a matching trigger type: keep it simple, any first TDH
            &|ws, i, _| is_first_tdh(ws, i),
            &|w, _| {
                w[0] = 0;
                w[1] &= 0b1110_0000; // trigger type 11:8 and internal trigger cleared
            },
        ),
        // the same sanity rules on the TDH that continues a readout frame on the next page and on the TDH
        // that follows a packet_done TDT / a no-data TDH (the implementation classifies these separately)
        "tdh_reserved_continuation" => word_fault(s, rng, name, &["E40"], true, &|ws, i, _| is_cont_tdh(ws, i), &|w, g| {
            match g.below(3) {
                0 => w[1] |= 0x80,
                1 => w[3] |= 0x10 << g.below(4),
                _ => w[8] |= 1 << g.below(8),
            }
        }),
        "tdh_id_continuation" => word_fault(s, rng, name, &["E40"], true, &|ws, i, _| is_cont_tdh(ws, i), &|w, g| {
            w[9] = *g.pick(&[0xE9u8, 0xEA, 0x00, 0xE0, 0xF0])
        }),
        "tdh_no_trigger_continuation" => word_fault(s, rng, name, &["E40"], true, &|ws, i, _| is_cont_tdh(ws, i), &|w, _| {
            w[0] = 0;
            w[1] &= 0b1110_0000;
        }),
        "tdh_reserved_choice_state" => {
            word_fault(s, rng, name, &["E40"], true, &|ws, i, _| is_choice_tdh(ws, i).is_some(), &|w, g| match g.below(3) {
                0 => w[1] |= 0x80,
                1 => w[3] |= 0x10 << g.below(4),
                _ => w[8] |= 1 << g.below(8),
            })
        }
        "tdh_id_choice_state" => {
            let c = find_words(s, &|ws, i, _| is_choice_tdh(ws, i).is_some());
            if c.is_empty() {
                return None;
            }
            let (l, p, w) = c[rng.usize_below(c.len())];
            let after_tdt = is_choice_tdh(&s.links[l].packets[p].words, w).unwrap();
            s.links[l].packets[p].words[w].word[9] = *rng.pick(&[0xE9u8, 0x00, 0xEC, 0xF1]);
            let code: &'static str = if after_tdt { "E992" } else { "E990" };
            Some(Applied {
                name,
                expects: vec![ex(&[code], word_off(s, l, p, w), true, true, true, false)],
                silent_in_sanity: false,
                silent_in_sanity_no_target: true,
            })
        }
        "tdt_reserved" => word_fault(s, rng, name, &["E50"], true, &|ws, i, _| ws[i].kind == Kind::Tdt, &|w, g| {
            match g.below(3) {
                0 => w[7] |= 1 << g.below(5),       // bits 60:56
                1 => w[8] |= 0x04,                   // bit 66
                _ => w[8] |= 0x10 << g.below(4),     // bits 71:68
            }
        }),
        "tdt_id" => {
            // 0xFF - the ID that looks like padding - only where it stays distinguishable from it: the last
            // word of a packet whose trailing 0xFF run (word bytes + padding) stays below 10 bytes
            let ff_ok: Vec<(usize, usize, usize)> = find_words(s, &|ws, i, pk| {
                ws[i].kind == Kind::Tdt && i + 1 == ws.len() && (pk.rdh.data_format == 0 || pk.padding + 1 + (ws[i].word[8] == 0xFF) as usize * 9 <= 9)
            });
            if !ff_ok.is_empty() && rng.chance(1, 3) {
                let (l, p, w) = ff_ok[rng.usize_below(ff_ok.len())];
                s.links[l].packets[p].words[w].word[9] = 0xFF;
                let off = word_off(s, l, p, w);
                return Some(Applied {
                    name,
                    expects: vec![ex(&["E991", "E70"], off, true, true, true, false)],
                    silent_in_sanity: false,
                    silent_in_sanity_no_target: false,
                });
            }
            word_fault(s, rng, name, &["E991", "E70"], true, &|ws, i, _| ws[i].kind == Kind::Tdt, &|w, g| {
                w[9] = *g.pick(&[0xF1u8, 0xF2, 0x00, 0x1F, 0x60])
            })
        }
        "data_word_id" => word_fault(s, rng, name, &["E991", "E70"], true, &|ws, i, _| ws[i].kind == Kind::Data, &|w, g| {
            w[9] = *g.pick(&[0x00u8, 0x1F, 0x29, 0x3F, 0x47, 0x4F, 0x57, 0x5F, 0x60, 0x9A])
        }),
        "ddw0_id" => {
            let c = find_words(s, &|ws, i, pk| i == 0 && ws[i].kind == Kind::Ddw0 && pk.rdh.stop_bit == 1);
            if c.is_empty() {
                return None;
            }
            let (l, p, w) = c[rng.usize_below(c.len())];
            if p == 0 {
                return None;
            }
            // which choice state precedes the DDW0: last word of the link's previous page
            let prev = s.links[l].packets[p - 1].words.last().cloned();
            let code: &'static str = match prev {
                Some(pw) if pw.kind == Kind::Tdh => "E990",
                _ => "E992",
            };
            let pk = &s.links[l].packets[p];
            let ff_ok = w + 1 == pk.words.len()
                && (pk.rdh.data_format == 0 || pk.padding + 1 + (pk.words[w].word[8] == 0xFF) as usize * 9 <= 9);
            s.links[l].packets[p].words[w].word[9] =
                if ff_ok && rng.chance(1, 3) { 0xFF } else { *rng.pick(&[0xE5u8, 0xE6, 0x00, 0xEC]) };
            Some(Applied {
                name,
                expects: vec![ex(&[code, "E60"], word_off(s, l, p, w), true, true, true, false)],
                silent_in_sanity: false,
                silent_in_sanity_no_target: true,
            })
        }
        "ddw0_reserved" => word_fault(s, rng, name, &["E60"], true, &|ws, i, _| ws[i].kind == Kind::Ddw0, &|w, g| {
            match g.below(3) {
                0 => w[7] |= 1 << g.below(8), // bits 63:56
                1 => w[8] |= 0x01,             // bit 64
                _ => w[8] |= 0x04,             // bit 66
            }
        }),
        "ddw0_index" => word_fault(s, rng, name, &["E60"], true, &|ws, i, _| ws[i].kind == Kind::Ddw0, &|w, g| {
            w[8] |= (g.range(1, 15) as u8) << 4
        }),
        "ddw0_on_page_0" => {
            let c = find_words(s, &|ws, i, pk| i == 0 && ws[i].kind == Kind::Ddw0 && pk.rdh.stop_bit == 1);
            let c: Vec<_> = c.into_iter().filter(|&(_, p, _)| p >= 2).collect();
            if c.is_empty() {
                return None;
            }
            let (l, p, w) = c[rng.usize_below(c.len())];
            s.links[l].packets[p].rdh.pages_counter = 0;
            Some(Applied {
                name,
                expects: vec![ex(&["E111"], word_off(s, l, p, w), false, true, true, false)],
                silent_in_sanity: true,
                silent_in_sanity_no_target: true,
            })
        }
        // ---------------- ITS state-dependent rules (check all + its)
        "tdh_continuation_set" => {
            let mut a = word_fault(s, rng, name, &["E42"], false, &|ws, i, _| is_first_tdh(ws, i), &|w, _| w[1] |= 0x40)?;
            a.silent_in_sanity_no_target = true;
            Some(a)
        }
        "tdh_continuation_cleared" => {
            let mut a = word_fault(s, rng, name, &["E41"], false, &|ws, i, _| is_cont_tdh(ws, i), &|w, _| w[1] &= !0x40)?;
            a.silent_in_sanity_no_target = true;
            Some(a)
        }
        "tdh_orbit" => {
            let mut a = word_fault(s, rng, name, &["E444"], false, &|ws, i, _| is_first_tdh(ws, i), &|w, g| {
                let o = u32::from_le_bytes([w[4], w[5], w[6], w[7]]).wrapping_add(1 + g.below(1000) as u32);
                w[4..8].copy_from_slice(&o.to_le_bytes());
            })?;
            a.silent_in_sanity = true;
            a.silent_in_sanity_no_target = true;
            Some(a)
        }
        "tdh_bc_vs_rdh" | "tdh_trigger_vs_rdh" => {
            // first TDH of page 0 whose TDH is internal or whose RDH carries the PhT bit
            let c = find_words(s, &|ws, i, pk| {
                is_first_tdh(ws, i)
                    && pk.rdh.pages_counter == 0
                    && (Tdh::from_word(&ws[i].word).internal || (pk.rdh.trigger_type >> 4) & 1 == 1)
                    // keep later TDHs of the page above the edited BC
                    && ws.iter().filter(|w| w.kind == Kind::Tdh).count() == 1
            });
            if c.is_empty() {
                return None;
            }
            let (l, p, w) = c[rng.usize_below(c.len())];
            let word = &mut s.links[l].packets[p].words[w].word;
            let mut t = Tdh::from_word(word);
            let code: &'static str;
            if name == "tdh_bc_vs_rdh" {
                t.bc = (t.bc + 1 + rng.below(100) as u16) % 3564;
                code = "E445";
            } else {
                // (a physics trigger that is not internal: in 1 of 3 it is the PhT bit itself that the TDH loses - the
                // comparison must not be gated on the very field it checks)
                let bit = if !t.internal && (t.trigger_type >> 4) & 1 == 1 && rng.chance(1, 3) { 4 } else { rng.below(12) };
                t.trigger_type ^= 1 << bit;
                if t.trigger_type == 0 && !t.internal {
                    t.trigger_type = 0x800;
                }
                code = "E44";
            }
            *word = t.word();
            Some(Applied {
                name,
                expects: vec![ex(&[code], word_off(s, l, p, w), false, true, true, false)],
                silent_in_sanity: true,
                silent_in_sanity_no_target: true,
            })
        }
        "tdh_bc_decreasing" => {
            let c = find_words(s, &|ws, i, _| {
                is_choice_tdh(ws, i).is_some() && {
                    // previous TDH in this packet has BC >= 1
                    ws[..i].iter().rev().find(|w| w.kind == Kind::Tdh).map_or(false, |p| Tdh::from_word(&p.word).bc >= 1)
                } && !ws[i + 1..].iter().any(|w| w.kind == Kind::Tdh)
            });
            if c.is_empty() {
                return None;
            }
            let (l, p, w) = c[rng.usize_below(c.len())];
            let prev_bc = {
                let ws = &s.links[l].packets[p].words;
                Tdh::from_word(&ws[..w].iter().rev().find(|x| x.kind == Kind::Tdh).unwrap().word).bc
            };
            let word = &mut s.links[l].packets[p].words[w].word;
            let mut t = Tdh::from_word(word);
            t.bc = rng.below(prev_bc as u64) as u16;
            *word = t.word();
            Some(Applied {
                name,
                expects: vec![ex(&["E440"], word_off(s, l, p, w), false, true, true, false)],
                silent_in_sanity: true,
                silent_in_sanity_no_target: true,
            })
        }
        "tdh_continuation_mismatch" => {
            let c = find_words(s, &|ws, i, _| is_cont_tdh(ws, i) && !ws[i + 1..].iter().any(|w| w.kind == Kind::Tdh));
            if c.is_empty() {
                return None;
            }
            let (l, p, w) = c[rng.usize_below(c.len())];
            let word = &mut s.links[l].packets[p].words[w].word;
            let mut t = Tdh::from_word(word);
            let code: &'static str = match rng.below(3) {
                0 => {
                    t.bc = (t.bc + 1) % 3564;
                    "E441"
                }
                1 => {
                    t.orbit = t.orbit.wrapping_add(1);
                    "E442"
                }
                _ => {
                    t.trigger_type ^= 1 << rng.below(12);
                    if t.trigger_type == 0 && !t.internal {
                        t.trigger_type = 0x800;
                    }
                    "E443"
                }
            };
            *word = t.word();
            Some(Applied {
                name,
                expects: vec![ex(&[code], word_off(s, l, p, w), false, true, true, false)],
                silent_in_sanity: true,
                silent_in_sanity_no_target: true,
            })
        }
        "cdw_index" => {
            // a CDW that has an earlier CDW on its link: new user field with index != 0
            let mut c = Vec::new();
            for (l, link) in s.links.iter().enumerate() {
                let mut seen = false;
                for (p, pk) in link.packets.iter().enumerate() {
                    for (w, wi) in pk.words.iter().enumerate() {
                        if wi.kind == Kind::Cdw {
                            if seen {
                                c.push((l, p, w));
                            }
                            seen = true;
                        }
                    }
                }
            }
            if c.is_empty() {
                return None;
            }
            let (l, p, w) = c[rng.usize_below(c.len())];
            // previous CDW's user field
            let word = &mut s.links[l].packets[p].words[w].word;
            word[0] ^= 0x5A; // user field differs from whatever the previous CDW had (all CDWs of a link
                             // with index != 0 share the previous user field)
            let idx = rng.range(1, 0xFF_FFFF) as u32;
            word[6..8].copy_from_slice(&((idx & 0xFFFF) as u16).to_le_bytes());
            word[8] = (idx >> 16) as u8;
            if word[6] == 0 && word[7] == 0 && word[8] == 0 {
                word[6] = 1;
            }
            Some(Applied {
                name,
                expects: vec![ex(&["E81"], word_off(s, l, p, w), false, true, true, false)],
                silent_in_sanity: true,
                silent_in_sanity_no_target: true,
            })
        }
        "lane_not_active" => {
            let c = find_words(s, &|ws, i, _| ws[i].kind == Kind::Data && ws[0].kind == Kind::Ihw);
            if c.is_empty() {
                return None;
            }
            let (l, p, w) = c[rng.usize_below(c.len())];
            let id = s.links[l].packets[p].words[w].word[9];
            let lane = words::lane_of_id(id);
            let inner = id >> 5 == 0b001;
            // clear the lane's bit in the governing IHW of this page
            let ihw = &mut s.links[l].packets[p].words[0].word;
            let mut a = u32::from_le_bytes([ihw[0], ihw[1], ihw[2], ihw[3]]);
            a &= !(1u32 << lane);
            ihw[0..4].copy_from_slice(&a.to_le_bytes());
            // the first data word of that lane in the page is the first offender
            let first = s.links[l].packets[p].words.iter().position(|x| x.kind == Kind::Data && x.word[9] == id).unwrap_or(w);
            Some(Applied {
                name,
                expects: vec![ex(&[if inner { "E72" } else { "E71" }], word_off(s, l, p, first), false, true, true, false)],
                silent_in_sanity: true,
                silent_in_sanity_no_target: true,
            })
        }
        "ob_connector_7" => {
            let c = find_words(s, &|ws, i, _| ws[i].kind == Kind::Data && ws[i].word[9] >> 5 == 0b010);
            if c.is_empty() {
                return None;
            }
            let (l, p, w) = c[rng.usize_below(c.len())];
            s.links[l].packets[p].words[w].word[9] |= 0x07;
            let off = word_off(s, l, p, w);
            Some(Applied {
                name,
                expects: vec![
                    ex(&["E73"], off, false, true, true, false),
                    ex(&["E991", "E70"], off, true, false, true, false),
                ],
                silent_in_sanity: false,
                silent_in_sanity_no_target: true,
            })
        }
        "excess_padding" => {
            let mut c = Vec::new();
            for (l, link) in s.links.iter().enumerate() {
                for (p, pk) in link.packets.iter().enumerate() {
                    if !pk.words.is_empty() {
                        c.push((l, p));
                    }
                }
            }
            if c.is_empty() {
                return None;
            }
            let (l, p) = c[rng.usize_below(c.len())];
            {
                let pk = &mut s.links[l].packets[p];
                pk.padding = rng.range(16, 40) as usize;
                // 1 in 4: nothing but the 0xFF bytes is left of the payload
                if rng.chance(1, 4) {
                    pk.words.clear();
                }
                pk.fix_sizes();
            }
            Some(Applied {
                name,
                expects: vec![ex(&[""], rdh_off(s, l, p), true, true, true, false)],
                silent_in_sanity: false,
                silent_in_sanity_no_target: true,
            })
        }
        // ---------------- stave level
        "frame_lane_missing" | "frame_empty" | "frame_end_without_start" => apply_stave(s, name, rng),
        _ => None,
    }
}

/// A readout frame of one link: start (packet, word) of the opening TDH, data word positions,
/// closing TDT position.
#[derive(Clone, Debug)]
pub struct Frame {
    pub link: usize,
    pub start: (usize, usize),
    pub data: Vec<(usize, usize)>,
    pub end: (usize, usize),
}

/// Frames of a link as the stave checks delimit them: a frame opens at the first TDH with
/// continuation = 0 seen while no frame is open (a no-data TDH opens one too and keeps it open) and
/// closes at the next TDT with packet_done.
pub fn scan_frames(s: &Stream, l: usize) -> Vec<Frame> {
    let mut frames = Vec::new();
    let mut open: Option<Frame> = None;
    for (p, pk) in s.links[l].packets.iter().enumerate() {
        for (w, wi) in pk.words.iter().enumerate() {
            match wi.kind {
                Kind::Tdh => {
                    if open.is_none() && !Tdh::from_word(&wi.word).continuation {
                        open = Some(Frame { link: l, start: (p, w), data: Vec::new(), end: (p, w) });
                    }
                }
                Kind::Data => {
                    if let Some(f) = open.as_mut() {
                        f.data.push((p, w));
                    }
                }
                Kind::Tdt => {
                    if Tdt::from_word(&wi.word).packet_done {
                        if let Some(mut f) = open.take() {
                            f.end = (p, w);
                            frames.push(f);
                        }
                    }
                }
                _ => {}
            }
        }
    }
    frames
}

fn apply_stave(s: &mut Stream, name: &'static str, rng: &mut Rng) -> Option<Applied> {
    let mut all: Vec<Frame> = Vec::new();
    for l in 0..s.links.len() {
        all.extend(scan_frames(s, l));
    }
    let all: Vec<Frame> = all.into_iter().filter(|f| !f.data.is_empty()).collect();
    if all.is_empty() {
        return None;
    }
    let f = all[rng.usize_below(all.len())].clone();
    let l = f.link;
    let inner = s.links[l].barrel == crate::gen::Barrel::Inner;
    match name {
        "frame_lane_missing" => {
            // drop every data word of one lane of the frame
            let ids: Vec<u8> = {
                let mut v: Vec<u8> = f.data.iter().map(|&(p, w)| s.links[l].packets[p].words[w].word[9]).collect();
                v.sort_unstable();
                v.dedup();
                v
            };
            if ids.len() < 2 {
                return None;
            }
            let victim = ids[rng.usize_below(ids.len())];
            // remove from the back so that indices stay valid
            let mut pos: Vec<(usize, usize)> =
                f.data.iter().copied().filter(|&(p, w)| s.links[l].packets[p].words[w].word[9] == victim).collect();
            pos.sort_unstable_by(|a, b| b.cmp(a));
            for (p, w) in pos {
                s.links[l].packets[p].words.remove(w);
                s.links[l].packets[p].fix_sizes();
            }
            // the start TDH precedes every data word of the frame, so its position is unchanged
            let off = word_off(s, l, f.start.0, f.start.1);
            Some(Applied {
                name,
                expects: vec![ex(&[if inner { "E72" } else { "E73" }], off, false, true, true, true)],
                silent_in_sanity: false,
                silent_in_sanity_no_target: true,
            })
        }
        "frame_empty" => {
            let mut pos = f.data.clone();
            pos.sort_unstable_by(|a, b| b.cmp(a));
            for (p, w) in pos {
                s.links[l].packets[p].words.remove(w);
                s.links[l].packets[p].fix_sizes();
            }
            let off = word_off(s, l, f.start.0, f.start.1);
            Some(Applied {
                name,
                expects: vec![ex(&["E701"], off, false, true, true, true)],
                silent_in_sanity: false,
                silent_in_sanity_no_target: true,
            })
        }
        _ => {
            // the frame's opening TDH gets the continuation bit: no frame start is seen, and the TDT
            // with packet done closes a frame that was never opened. Only for frames whose opening
            // TDH is the TDH that directly precedes the data (no no-data TDH before it keeps a frame open).
            let (p, w) = f.start;
            let ws = &s.links[l].packets[p].words;
            if Tdh::from_word(&ws[w].word).no_data {
                return None;
            }
            // the previous frame of the link must be closed: true by construction of scan_frames
            s.links[l].packets[p].words[w].word[1] |= 0x40;
            let off = word_off(s, l, f.end.0, f.end.1);
            Some(Applied {
                name,
                expects: vec![ex(&["E59"], off, false, true, true, true)],
                silent_in_sanity: false,
                silent_in_sanity_no_target: true,
            })
        }
    }
}
