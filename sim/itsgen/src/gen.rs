//! Model of the upstream system: per-link readout units emitting conforming packet sequences
//! (RDH v6/v7 + ITS payload grammar + optional ALPIDE lane content), merged into one stream by a
//! seeded CRU merge schedule. Keeps ground truth (per packet: header fields and word list).
//!
//! The rules obeyed are listed, with their sources, in DESIGN.md appendix A.

use crate::alpide::{chunk9, encode_lane, Chip, LaneFrame};
use crate::rdh::{fee_id, Rdh};
use crate::words::{self, Kind, Tdh, Tdt, Word};
use fpsim_rt::rng::Rng;

#[derive(Clone, Copy, Debug, PartialEq, Eq)]
pub enum Barrel {
    Inner,
    Middle,
    Outer,
}

impl Barrel {
    pub fn of_layer(layer: u8) -> Barrel {
        match layer {
            0..=2 => Barrel::Inner,
            3 | 4 => Barrel::Middle,
            _ => Barrel::Outer,
        }
    }
}

#[derive(Clone, Copy, Debug, PartialEq, Eq)]
pub enum Merge {
    Contiguous,
    RoundRobin,
    Random,
}

#[derive(Clone, Debug)]
pub struct GenCfg {
    pub n_links: usize,
    pub hbfs: (u64, u64),
    pub data_pages: (u64, u64),
    pub triggers: (u64, u64),
    pub data_words: (u64, u64),
    pub data_format: u8,
    pub version: u8,
    /// Every data trigger is a full ALPIDE readout frame with the stave's complete lane set.
    pub stave_mode: bool,
    pub p_no_data: u64,  // permille
    pub p_split: u64,    // permille: a data trigger is continued on the next page
    pub p_cdw: u64,      // permille
    pub p_internal: u64, // permille
    pub merge: Merge,
    /// Restrict the barrels links are drawn from (None = any).
    pub barrels: Option<Vec<Barrel>>,
    /// Internal triggers at this exact period (BC distance mod 3564); C20.
    pub trigger_period: Option<u16>,
    /// Permille of internal triggers that deviate from the period (C20).
    pub period_jitter: u64,
    /// Max pixel-hit words per region in stave mode.
    pub max_hits: usize,
    /// Arbitrary legal status bits in TDT / DDW0 / detector field.
    pub free_status_bits: bool,
    /// Several FEE IDs may travel on one link number (legal when validation is per FEE ID, i.e. in
    /// stave mode only).
    pub share_link_ids: bool,
    /// Prefer staves of an already used layer whose number differs from a used one in a single bit.
    pub alias_staves: bool,
    /// a link may carry the FEE ID of an earlier link with one reserved bit set (a different FEE ID; every RDH of it
    /// fails the FEE ID sanity check)
    pub reserved_bit_twin: bool,
    /// C13: readout frames to emit, in order, instead of generated conforming frames (first link
    /// only). When the plan is exhausted conforming frames follow.
    pub frame_plan: Vec<FrameSpec>,
    /// Non-stave mode: the last data-carrying trigger of a page (1 page in 3) is topped up with lane data
    /// until the page holds exactly this many words (0 = off): pages at and around the size limits.
    pub fill_page_words: usize,
    /// Every link (not only the first) emits the frame plan.
    pub plan_all_links: bool,
}

/// One planned readout frame: the lanes with their chips, and the seed of the pixel-hit content.
#[derive(Clone, Debug)]
pub struct FrameSpec {
    pub lanes: Vec<LaneFrame>,
    pub hit_seed: u64,
}

impl GenCfg {
    /// Swarm configuration: every knob drawn from the seed.
    pub fn swarm(rng: &mut Rng, stave_mode: bool) -> GenCfg {
        let big = rng.chance(1, 6);
        GenCfg {
            n_links: if rng.chance(1, 4) { 1 } else { rng.range(1, 12) as usize },
            hbfs: (1, if big { 12 } else { 3 }),
            data_pages: (1, if rng.chance(1, 3) { 1 } else { 4 }),
            triggers: (1, rng.range(1, 5)),
            data_words: (0, if big { 60 } else { 12 }),
            data_format: if rng.chance(1, 2) { 0 } else { 2 },
            version: if rng.chance(1, 2) { 6 } else { 7 },
            stave_mode,
            p_no_data: *rng.pick(&[0, 100, 300, 700]),
            p_split: *rng.pick(&[0, 150, 400]),
            p_cdw: *rng.pick(&[0, 100, 400]),
            p_internal: *rng.pick(&[0, 300, 1000]),
            merge: *rng.pick(&[Merge::Contiguous, Merge::RoundRobin, Merge::Random]),
            barrels: None,
            trigger_period: None,
            period_jitter: 0,
            max_hits: rng.range(0, 6) as usize,
            free_status_bits: rng.chance(2, 3),
            share_link_ids: false,
            alias_staves: false,
            reserved_bit_twin: false,
            frame_plan: Vec::new(),
            fill_page_words: 0,
            plan_all_links: false,
        }
    }
}

#[derive(Clone, Debug, PartialEq)]
pub struct WordInfo {
    pub kind: Kind,
    pub word: Word,
}

#[derive(Clone, Debug)]
pub struct Packet {
    pub rdh: Rdh,
    pub words: Vec<WordInfo>,
    /// Trailing 0xFF bytes (data format 2).
    pub padding: usize,
    pub hbf: usize,
    pub page: usize,
}

impl Packet {
    pub fn payload(&self) -> Vec<u8> {
        let mut p = Vec::with_capacity(self.words.len() * 16 + 16);
        if self.rdh.data_format == 0 {
            for w in &self.words {
                p.extend_from_slice(&w.word);
                p.extend_from_slice(&[0u8; 6]);
            }
            // (never in conforming data: the excess-padding fault also applies to this format)
            p.extend(std::iter::repeat(0xFF).take(self.padding));
        } else {
            for w in &self.words {
                p.extend_from_slice(&w.word);
            }
            p.extend(std::iter::repeat(0xFF).take(self.padding));
        }
        p
    }
    /// Recompute the size fields from the content.
    pub fn fix_sizes(&mut self) {
        let n = 64 + self.payload().len();
        self.rdh.memory_size = n as u16;
        self.rdh.offset_next = n as u16;
    }
    pub fn bytes(&self) -> Vec<u8> {
        let mut b = self.rdh.to_bytes().to_vec();
        b.extend_from_slice(&self.payload());
        b
    }
    /// Byte offset, relative to the packet start, of word `i`.
    pub fn word_offset(&self, i: usize) -> usize {
        64 + i * if self.rdh.data_format == 0 { 16 } else { 10 }
    }
}

#[derive(Clone, Debug)]
pub struct LinkStream {
    pub link_id: u8,
    pub fee_id: u16,
    pub barrel: Barrel,
    /// Data-word IDs of the lanes this link carries.
    pub lanes: Vec<u8>,
    pub active_lanes: u32,
    pub packets: Vec<Packet>,
}

#[derive(Clone, Debug)]
pub struct Stream {
    pub links: Vec<LinkStream>,
    /// Merge order: (link index, packet index in link).
    pub order: Vec<(usize, usize)>,
}

impl Stream {
    pub fn bytes(&self) -> Vec<u8> {
        let mut b = Vec::new();
        for &(l, p) in &self.order {
            b.extend_from_slice(&self.links[l].packets[p].bytes());
        }
        b
    }
    /// Stream offset of every entry of `order`.
    pub fn offsets(&self) -> Vec<usize> {
        let mut v = Vec::with_capacity(self.order.len());
        let mut pos = 0;
        for &(l, p) in &self.order {
            v.push(pos);
            pos += 64 + self.links[l].packets[p].payload().len();
        }
        v
    }
    pub fn packet(&self, idx: usize) -> &Packet {
        let (l, p) = self.order[idx];
        &self.links[l].packets[p]
    }
    pub fn packet_mut(&mut self, idx: usize) -> &mut Packet {
        let (l, p) = self.order[idx];
        &mut self.links[l].packets[p]
    }
    pub fn total_packets(&self) -> usize {
        self.order.len()
    }
    /// Rebuild the merge order from the links' packet lists with the given schedule.
    pub fn remerge(&mut self, merge: Merge, rng: &mut Rng) {
        self.order = merge_order(&self.links.iter().map(|l| l.packets.len()).collect::<Vec<_>>(), merge, rng);
    }
    /// The single-link stream of link `l` (physically extracted).
    pub fn extract_link(&self, l: usize) -> Stream {
        let link = self.links[l].clone();
        let n = link.packets.len();
        Stream { links: vec![link], order: (0..n).map(|p| (0, p)).collect() }
    }
}

pub fn merge_order(lens: &[usize], merge: Merge, rng: &mut Rng) -> Vec<(usize, usize)> {
    let mut order = Vec::new();
    match merge {
        Merge::Contiguous => {
            for (l, &n) in lens.iter().enumerate() {
                for p in 0..n {
                    order.push((l, p));
                }
            }
        }
        Merge::RoundRobin => {
            let mut idx = vec![0usize; lens.len()];
            loop {
                let mut any = false;
                for l in 0..lens.len() {
                    if idx[l] < lens[l] {
                        order.push((l, idx[l]));
                        idx[l] += 1;
                        any = true;
                    }
                }
                if !any {
                    break;
                }
            }
        }
        Merge::Random => {
            let mut idx = vec![0usize; lens.len()];
            let total: usize = lens.iter().sum();
            // random merge preserving each link's order; bursts of random length
            while order.len() < total {
                let live: Vec<usize> = (0..lens.len()).filter(|&l| idx[l] < lens[l]).collect();
                let l = live[rng.usize_below(live.len())];
                let burst = 1 + rng.usize_below(4);
                for _ in 0..burst {
                    if idx[l] < lens[l] {
                        order.push((l, idx[l]));
                        idx[l] += 1;
                    }
                }
            }
        }
    }
    order
}

/// Legal RDH trigger type: non-zero, spare bits 15..=26 clear.
pub fn gen_trigger_type(rng: &mut Rng) -> u32 {
    const LEGAL: u32 = !0b0000_0111_1111_1111_1000_0000_0000_0000;
    loop {
        let mut t = rng.next_u32() & LEGAL;
        if rng.chance(1, 2) {
            t &= 0x7FFF; // mostly the documented low bits
        }
        if rng.chance(2, 3) {
            t |= 0b11; // ORBIT + HB
        }
        if t != 0 {
            return t;
        }
    }
}

fn lanes_for(barrel: Barrel, rng: &mut Rng) -> Vec<u8> {
    match barrel {
        Barrel::Inner => {
            let g = rng.below(3) as u8;
            (0..3).map(|i| words::ib_lane_id(g * 3 + i)).collect()
        }
        Barrel::Middle => {
            if rng.chance(1, 2) {
                vec![0x43, 0x44, 0x45, 0x46, 0x48, 0x49, 0x4A, 0x4B]
            } else {
                vec![0x53, 0x54, 0x55, 0x56, 0x58, 0x59, 0x5A, 0x5B]
            }
        }
        Barrel::Outer => {
            if rng.chance(1, 2) {
                (0x40..=0x46).chain(0x48..=0x4E).collect()
            } else {
                (0x50..=0x56).chain(0x58..=0x5E).collect()
            }
        }
    }
}

struct Pending {
    tdh: Tdh,
    rest: Vec<Word>,
}

struct LinkGen<'a> {
    cfg: &'a GenCfg,
    rng: Rng,
    link_id: u8,
    fee: u16,
    barrel: Barrel,
    lanes: Vec<u8>,
    active: u32,
    cru_id: u16,
    dw: u8,
    packet_counter: u8,
    cdw_user: Option<u64>,
    cdw_index: u32,
    last_internal_bc: Option<u16>,
    packets: Vec<Packet>,
    plan: std::collections::VecDeque<FrameSpec>,
}

impl<'a> LinkGen<'a> {
    fn status_bits(&mut self, bits: u32) -> u64 {
        if self.cfg.free_status_bits && self.rng.chance(1, 3) {
            self.rng.next_u64() & ((1u64 << bits) - 1)
        } else {
            0
        }
    }

    fn tdt(&mut self, packet_done: bool) -> Word {
        let free = self.cfg.free_status_bits;
        let t = Tdt {
            lane_status: self.status_bits(56),
            timeout_to_start: free && self.rng.chance(1, 10),
            timeout_start_stop: free && self.rng.chance(1, 10),
            timeout_in_idle: free && self.rng.chance(1, 10),
            packet_done,
            transmission_timeout: free && self.rng.chance(1, 10),
            lane_starts_violation: free && self.rng.chance(1, 10),
        };
        t.word()
    }

    /// Data words of one trigger.
    fn trigger_data(&mut self) -> Vec<Word> {
        if let Some(fs) = self.plan.pop_front() {
            let mut per_lane: Vec<Vec<Word>> = Vec::new();
            let mut hr = Rng::new(fs.hit_seed);
            for lf in &fs.lanes {
                let stream = encode_lane(lf, &mut hr, self.cfg.max_hits);
                per_lane.push(chunk9(&stream).iter().map(|c| words::data_word(lf.lane_id, c)).collect());
            }
            let lens: Vec<usize> = per_lane.iter().map(|v| v.len()).collect();
            // the merge of the lanes' words is part of the (ignorable) content: seeded by hit_seed too
            let order = merge_order(&lens, Merge::Random, &mut hr);
            return order.into_iter().map(|(l, i)| per_lane[l][i]).collect();
        }
        if self.cfg.stave_mode {
            // a full readout frame: every lane of the stave, one shared bunch counter
            let bc = self.rng.below(256) as u8;
            let mut per_lane: Vec<Vec<Word>> = Vec::new();
            let lanes = self.lanes.clone();
            for &lane_id in &lanes {
                let chips = match self.barrel {
                    Barrel::Inner => vec![Chip {
                        id: words::lane_of_id(lane_id),
                        bc,
                        empty: self.rng.chance(1, 4),
                        flags: self.rng.below(16) as u8,
                    }],
                    _ => {
                        let n = self.rng.range(1, 7) as u8;
                        let base = if self.rng.chance(1, 2) { 0 } else { 8 };
                        (0..n)
                            .map(|i| Chip {
                                id: base + i,
                                bc,
                                empty: self.rng.chance(1, 4),
                                flags: self.rng.below(16) as u8,
                            })
                            .collect()
                    }
                };
                let lf = LaneFrame { lane_id, chips, fatal_ape: None };
                let mut hr = self.rng.fork(0xA1);
                let stream = encode_lane(&lf, &mut hr, self.cfg.max_hits);
                per_lane
                    .push(chunk9(&stream).iter().map(|c| words::data_word(lane_id, c)).collect());
            }
            // seeded merge of the lanes' words preserving each lane's order
            let lens: Vec<usize> = per_lane.iter().map(|v| v.len()).collect();
            let order = merge_order(&lens, Merge::Random, &mut self.rng);
            order.into_iter().map(|(l, i)| per_lane[l][i]).collect()
        } else {
            let n = self.rng.range(self.cfg.data_words.0, self.cfg.data_words.1) as usize;
            (0..n)
                .map(|_| {
                    let id = *self.rng.pick(&self.lanes);
                    let mut nine = [0u8; 9];
                    self.rng.fill(&mut nine);
                    words::data_word(id, &nine)
                })
                .collect()
        }
    }

    fn maybe_cdw(&mut self, out: &mut Vec<WordInfo>, data_seen: &mut bool) {
        if !*data_seen && self.rng.chance(self.cfg.p_cdw, 1000) {
            // a changed user field must come with index 0 (E81)
            let (user, index) = match self.cdw_user {
                Some(u) if self.rng.chance(2, 3) => {
                    self.cdw_index = self.cdw_index.wrapping_add(1) & 0xFF_FFFF;
                    (u, self.cdw_index)
                }
                _ => {
                    self.cdw_index = 0;
                    (self.rng.next_u64() & 0xFFFF_FFFF_FFFF, 0)
                }
            };
            self.cdw_user = Some(user);
            out.push(WordInfo { kind: Kind::Cdw, word: words::cdw(user, index) });
            // the CDW counts as data for "start of data": only one per packet
            *data_seen = true;
        }
    }

    fn gen_hbf(&mut self, hbf: usize, orbit: u32) {
        let cfg = self.cfg;
        let tt = gen_trigger_type(&mut self.rng);
        let pht = (tt >> 4) & 1 == 1;
        let n_pages = self.rng.range(cfg.data_pages.0, cfg.data_pages.1) as usize;
        let det_field = if cfg.free_status_bits {
            (self.rng.next_u32() & 0xFF00_0FFF) & if self.rng.chance(1, 2) { 0xF } else { !0 }
        } else {
            0
        };
        let mut pending: Option<Pending> = None;
        for page in 0..n_pages {
            let last_data_page = page + 1 == n_pages;
            let mut ws: Vec<WordInfo> = Vec::new();
            ws.push(WordInfo { kind: Kind::Ihw, word: words::ihw(self.active) });
            let mut data_seen = false;
            // bunch crossings of this page: strictly increasing
            let n_trig = self.rng.range(cfg.triggers.0, cfg.triggers.1) as usize;
            let mut bc_floor: u16;
            let mut rdh_bc = self.rng.below(0xdeb + 1) as u16;
            let mut page_open = true;
            if let Some(p) = pending.take() {
                // continuation of a packet split over pages
                let mut tdh = p.tdh;
                tdh.continuation = true;
                ws.push(WordInfo { kind: Kind::Tdh, word: tdh.word() });
                self.maybe_cdw(&mut ws, &mut data_seen);
                let mut rest = p.rest;
                let split_again =
                    !last_data_page && rest.len() >= 2 && self.rng.chance(cfg.p_split / 2, 1000);
                if split_again {
                    let cut = 1 + self.rng.usize_below(rest.len() - 1);
                    let tail = rest.split_off(cut);
                    for w in rest {
                        ws.push(WordInfo { kind: Kind::Data, word: w });
                    }
                    let w = self.tdt(false);
                    ws.push(WordInfo { kind: Kind::Tdt, word: w });
                    pending = Some(Pending { tdh: p.tdh, rest: tail });
                    page_open = false;
                } else {
                    for w in rest {
                        ws.push(WordInfo { kind: Kind::Data, word: w });
                        data_seen = true;
                    }
                    let w = self.tdt(true);
                    ws.push(WordInfo { kind: Kind::Tdt, word: w });
                }
                bc_floor = p.tdh.bc + 1;
            } else {
                bc_floor = 0;
            }
            if page_open {
                let first_after_ihw_needed = ws.len() == 1;
                for t in 0..n_trig {
                    let first_after_ihw = first_after_ihw_needed && t == 0;
                    // room for the remaining triggers' BCs
                    let remaining = (n_trig - t) as u16;
                    if bc_floor as u32 + remaining as u32 > 3563 {
                        break;
                    }
                    let mut internal = self.rng.chance(cfg.p_internal, 1000);
                    let mut bc = if let (Some(p), true) = (cfg.trigger_period, internal) {
                        // exact period from the previous internal trigger (mod orbit length)
                        match self.last_internal_bc {
                            Some(_) if self.rng.chance(cfg.period_jitter, 1000) => self.rng.below(3564) as u16,
                            Some(prev) => (prev + p) % 3564,
                            None => self.rng.range(bc_floor as u64, (3563 - remaining) as u64) as u16,
                        }
                    } else {
                        let hi = (bc_floor as u64 + 300).min((3563 - remaining + 1) as u64);
                        self.rng.range(bc_floor as u64, hi) as u16
                    };
                    if cfg.trigger_period.is_some() && internal && bc < bc_floor {
                        // wrapped below the floor: only legal as first trigger of a page
                        if !first_after_ihw {
                            internal = false;
                            bc = self.rng.range(bc_floor as u64, (3563 - remaining + 1) as u64) as u16;
                        }
                    }
                    let mut ttype: u16 = (self.rng.next_u32() & 0xFFF) as u16;
                    if first_after_ihw && page == 0 {
                        // TDH right after the IHW of page 0: matches the RDH when internal or PhT
                        if internal || pht || self.rng.chance(1, 2) {
                            ttype = (tt & 0xFFF) as u16;
                            rdh_bc = bc.min(0xdeb);
                            bc = rdh_bc;
                        }
                    }
                    if ttype == 0 && !internal {
                        ttype = 1 + (self.rng.below(0xFFF) as u16);
                        if first_after_ihw && page == 0 && pht {
                            // cannot happen: pht implies tt bit 4 set
                        }
                    }
                    let no_data = self.rng.chance(cfg.p_no_data, 1000);
                    let tdh = Tdh { trigger_type: ttype, internal, no_data, continuation: false, bc, orbit };
                    if internal {
                        self.last_internal_bc = Some(bc);
                    }
                    ws.push(WordInfo { kind: Kind::Tdh, word: tdh.word() });
                    bc_floor = bc + 1;
                    if no_data {
                        continue;
                    }
                    self.maybe_cdw(&mut ws, &mut data_seen);
                    let mut data = self.trigger_data();
                    let is_last_trigger = t + 1 == n_trig;
                    let split = is_last_trigger
                        && !last_data_page
                        && data.len() >= 2
                        && self.rng.chance(cfg.p_split, 1000);
                    if split {
                        let cut = self.rng.usize_below(data.len());
                        let tail = data.split_off(cut);
                        for w in data {
                            ws.push(WordInfo { kind: Kind::Data, word: w });
                        }
                        let w = self.tdt(false);
                        ws.push(WordInfo { kind: Kind::Tdt, word: w });
                        pending = Some(Pending { tdh, rest: tail });
                        break;
                    } else {
                        if is_last_trigger && !cfg.stave_mode && cfg.fill_page_words > ws.len() + data.len() + 1 && self.rng.chance(1, 3) {
                            // a page filled to an exact size
                            let want = cfg.fill_page_words - ws.len() - 1;
                            while data.len() < want {
                                let id = *self.rng.pick(&self.lanes);
                                let mut nine = [0u8; 9];
                                self.rng.fill(&mut nine);
                                data.push(words::data_word(id, &nine));
                            }
                        }
                        for w in data {
                            ws.push(WordInfo { kind: Kind::Data, word: w });
                            data_seen = true;
                        }
                        let w = self.tdt(true);
                        ws.push(WordInfo { kind: Kind::Tdt, word: w });
                    }
                }
                if ws.len() == 1 {
                    // no trigger fitted: emit one no-data trigger so the page is well formed
                    let tdh = Tdh {
                        trigger_type: ((tt & 0xFFF) as u16).max(1),
                        internal: false,
                        no_data: true,
                        continuation: false,
                        bc: rdh_bc,
                        orbit,
                    };
                    let mut tdh = tdh;
                    if (tt & 0xFFF) == 0 {
                        tdh.internal = true;
                        tdh.trigger_type = 0;
                    }
                    ws.push(WordInfo { kind: Kind::Tdh, word: tdh.word() });
                }
            }
            self.push_packet(hbf, page, orbit, tt, rdh_bc, 0, det_field, ws);
        }
        // stop page
        let ls = self.status_bits(56);
        let free = cfg.free_status_bits;
        let d = words::ddw0(ls, free && self.rng.chance(1, 10), free && self.rng.chance(1, 10));
        let bc = self.rng.below(0xdeb + 1) as u16;
        self.push_packet(hbf, n_pages, orbit, tt, bc, 1, det_field, vec![WordInfo { kind: Kind::Ddw0, word: d }]);
    }

    #[allow(clippy::too_many_arguments)]
    fn push_packet(
        &mut self,
        hbf: usize,
        page: usize,
        orbit: u32,
        tt: u32,
        bc: u16,
        stop: u8,
        det_field: u32,
        words: Vec<WordInfo>,
    ) {
        let padding = if self.cfg.data_format == 0 {
            0
        } else if self.rng.chance(1, 3) {
            self.rng.below(16) as usize
        } else {
            // pad to a 16-byte boundary like the readout does
            (16 - (words.len() * 10) % 16) % 16
        };
        // (a payload never exceeds what the offset-to-next field may say: 10 000 bytes)
        let padding = padding.min(10_000usize.saturating_sub(words.len() * 10));
        let rdh = Rdh {
            version: self.cfg.version,
            fee_id: self.fee,
            link_id: self.link_id,
            packet_counter: self.packet_counter,
            cru_id: self.cru_id,
            dw: self.dw,
            bc,
            orbit,
            data_format: self.cfg.data_format,
            trigger_type: tt,
            pages_counter: page as u16,
            stop_bit: stop,
            detector_field: det_field,
            par_bit: if self.cfg.free_status_bits { self.rng.below(2) as u16 } else { 0 },
            ..Default::default()
        };
        self.packet_counter = self.packet_counter.wrapping_add(1);
        let mut p = Packet { rdh, words, padding, hbf, page };
        p.fix_sizes();
        self.packets.push(p);
    }
}

/// Generate a conforming multi-link stream.
pub fn gen_conforming(cfg: &GenCfg, rng: &mut Rng) -> Stream {
    let mut links = Vec::new();
    let mut used_links: Vec<u8> = Vec::new();
    let mut used_fee: Vec<u16> = Vec::new();
    let cru_id = rng.below(0x1000) as u16;
    for _ in 0..cfg.n_links {
        let link_id = loop {
            let l = if rng.chance(1, 12) { 15 } else { rng.below(12) as u8 };
            if cfg.share_link_ids && !used_links.is_empty() && rng.chance(1, 2) {
                break *rng.pick(&used_links);
            }
            if !used_links.contains(&l) {
                break l;
            }
            if used_links.len() >= 13 {
                let l = rng.range(16, 255) as u8;
                if !used_links.contains(&l) {
                    break l;
                }
            }
        };
        used_links.push(link_id);
        let (fee, barrel) = loop {
            let layer = match &cfg.barrels {
                Some(bs) => {
                    let b = *rng.pick(bs);
                    match b {
                        Barrel::Inner => rng.below(3) as u8,
                        Barrel::Middle => 3 + rng.below(2) as u8,
                        Barrel::Outer => 5 + rng.below(2) as u8,
                    }
                }
                None => rng.below(7) as u8,
            };
            let mut f = fee_id(layer, rng.below(48) as u8, rng.below(4) as u8);
            if cfg.alias_staves && !used_fee.is_empty() && rng.chance(2, 3) {
                let u = *rng.pick(&used_fee);
                let (ul, us) = ((u >> 12) as u8 & 0x7, (u & 0x3F) as u8);
                let allowed = match &cfg.barrels {
                    Some(bs) => bs.contains(&Barrel::of_layer(ul)),
                    None => true,
                };
                let bit = if rng.chance(1, 2) { 5 } else { rng.below(5) };
                let alias = us ^ (1 << bit);
                if allowed && alias < 48 {
                    f = fee_id(ul, alias, rng.below(4) as u8);
                }
            }
            if cfg.reserved_bit_twin && !used_fee.is_empty() && rng.chance(1, 2) {
                let u = *rng.pick(&used_fee) & 0b0111_0011_0011_1111;
                let t = u | (1u16 << *rng.pick(&[15u16, 11, 10, 7, 6]));
                if !used_fee.contains(&t) {
                    break (t, Barrel::of_layer((u >> 12) as u8 & 0x7));
                }
            }
            // distinct (layer, stave) so that a stave filter selects one link
            if !used_fee.iter().any(|u| crate::rdh::layer_stave_match(*u, f)) {
                break (f, Barrel::of_layer(layer));
            }
        };
        used_fee.push(fee);
        let lanes = lanes_for(barrel, rng);
        let mut active: u32 = 0;
        for &id in &lanes {
            active |= 1 << words::lane_of_id(id);
        }
        if rng.chance(1, 3) {
            active |= rng.next_u32() & 0x0FFF_FFFF;
        }
        if !cfg.frame_plan.is_empty() {
            active = 0x0FFF_FFFF;
        }
        let mut lg = LinkGen {
            cfg,
            rng: rng.fork(link_id as u64),
            link_id,
            fee,
            barrel,
            lanes: lanes.clone(),
            active,
            cru_id,
            dw: rng.below(2) as u8,
            packet_counter: rng.below(256) as u8,
            cdw_user: None,
            cdw_index: 0,
            last_internal_bc: None,
            packets: Vec::new(),
            plan: if links.is_empty() || cfg.plan_all_links { cfg.frame_plan.iter().cloned().collect() } else { Default::default() },
        };
        let n_hbf = rng.range(cfg.hbfs.0, cfg.hbfs.1) as usize;
        // orbits are arbitrary; the only rule is that consecutive HBFs of a link differ. Three
        // styles: increasing, increasing across the 32-bit wrap, arbitrary (non-monotonic).
        let style = rng.below(4);
        let mut orbit = match style {
            1 => u32::MAX - rng.below(n_hbf as u64 * 2 + 1) as u32,
            _ => rng.next_u32(),
        };
        // (a link number shared with an earlier link: where the two are stored one after the other the orbit rule
        // spans the switch - the first heartbeat frame here must not repeat the last orbit there)
        while links.iter().any(|l: &LinkStream| l.link_id == link_id && l.packets.last().map_or(false, |p| p.rdh.orbit == orbit)) {
            orbit = orbit.wrapping_add(7);
        }
        for h in 0..n_hbf {
            lg.gen_hbf(h, orbit);
            orbit = match style {
                2 | 3 => loop {
                    let o = rng.next_u32();
                    if o != orbit {
                        break o;
                    }
                },
                _ => orbit.wrapping_add(1 + rng.below(3) as u32),
            };
        }
        links.push(LinkStream {
            link_id,
            fee_id: fee,
            barrel,
            lanes,
            active_lanes: active,
            packets: lg.packets,
        });
    }
    let lens: Vec<usize> = links.iter().map(|l| l.packets.len()).collect();
    let order = merge_order(&lens, cfg.merge, rng);
    Stream { links, order }
}

/// Well-framed but otherwise arbitrary stream: arbitrary header fields and payload bytes subject
/// only to framing (offset-to-next == memory size in range) and to the few values whose violation
/// is a documented fatal (first RDH0 sane, known system ID on the first packet).
pub fn gen_arbitrary(rng: &mut Rng, n_packets: usize, max_payload: usize, n_links: usize) -> Vec<u8> {
    let mut out = Vec::new();
    let links: Vec<u8> = (0..n_links.max(1)).map(|_| rng.below(256) as u8).collect();
    let fees: Vec<u16> = (0..n_links.max(1)).map(|_| rng.next_u32() as u16).collect();
    const SYS: [u8; 21] = [3, 4, 5, 6, 7, 8, 10, 15, 17, 18, 19, 32, 33, 34, 35, 36, 37, 38, 39, 255, 32];
    let version = if rng.chance(1, 2) { 6 } else { 7 };
    for i in 0..n_packets {
        let li = rng.usize_below(links.len());
        let plen = match rng.below(6) {
            0 => 0,
            1 => rng.below(33) as usize,
            2 => rng.below(max_payload as u64 + 1) as usize,
            _ => rng.below((max_payload as u64 / 8).max(1) + 1) as usize,
        }
        .min(10_000);
        let mut b = [0u8; 64];
        rng.fill(&mut b);
        let mut r = Rdh::from_bytes(&b);
        r.link_id = links[li];
        r.fee_id = fees[li];
        r.memory_size = (64 + plen) as u16;
        r.offset_next = r.memory_size;
        r.system_id = *rng.pick(&SYS);
        if rng.chance(3, 4) {
            r.version = version;
            r.header_size = 0x40;
            r.system_id = 0x20;
            r.stop_bit = rng.below(2) as u8;
            r.data_format = if rng.chance(1, 2) { 0 } else { 2 };
        }
        if i == 0 {
            // documented fatals at the very start of the stream
            r.version = version;
            r.header_size = 0x40;
            r.priority = 0;
            r.rdh0_reserved = 0;
            r.fee_id = fee_id(rng.below(7) as u8, rng.below(48) as u8, rng.below(4) as u8);
            r.system_id = *rng.pick(&SYS);
        }
        out.extend_from_slice(&r.to_bytes());
        let mut p = vec![0u8; plen];
        rng.fill(&mut p);
        out.extend_from_slice(&p);
    }
    out
}

/// Well-framed stream with arbitrary header values whose payloads are sequences of 80-bit words
/// laid out as the header's data format prescribes (format 0: 16-byte slots, format 2: 10-byte
/// words + 0..15 bytes of 0xFF). Word IDs are drawn from the known ITS IDs (and, with
/// `p_unknown_id` permille, other values except 0xFF); all other bytes are arbitrary.
/// Returns the stream bytes. Used where the statement requires "payload layout agrees with the
/// header's data format" (C03, C07, C12, C19).
pub fn gen_framed_words(
    rng: &mut Rng,
    n_packets: usize,
    max_words: usize,
    n_links: usize,
    p_unknown_id: u64,
    sane_headers: bool,
) -> Vec<u8> {
    let mut out = Vec::new();
    let n_links = n_links.max(1);
    let links: Vec<u8> = (0..n_links).map(|_| rng.below(if sane_headers { 12 } else { 256 }) as u8).collect();
    let fees: Vec<u16> = (0..n_links)
        .map(|_| {
            if sane_headers || rng.chance(1, 2) {
                fee_id(rng.below(7) as u8, rng.below(48) as u8, rng.below(4) as u8)
            } else {
                rng.next_u32() as u16
            }
        })
        .collect();
    const SYS: [u8; 20] = [3, 4, 5, 6, 7, 8, 10, 15, 17, 18, 19, 32, 33, 34, 35, 36, 37, 38, 39, 255];
    const KNOWN_IDS: [u8; 14] =
        [0xE0, 0xE8, 0xE8, 0xF0, 0xF0, 0xE4, 0xF8, 0x20, 0x28, 0x43, 0x4B, 0x50, 0x5E, 0x46];
    let version = if rng.chance(1, 2) { 6 } else { 7 };
    let first_sys = if rng.chance(3, 4) { 0x20 } else { *rng.pick(&SYS) };
    for i in 0..n_packets {
        let li = rng.usize_below(n_links);
        let df: u8 = if rng.chance(1, 2) { 0 } else { 2 };
        let nwords = match rng.below(5) {
            0 => 0,
            1 => 1,
            _ => rng.below(max_words as u64 + 1) as usize,
        }
        .min(if df == 0 { 620 } else { 990 }); // payload <= 10000 bytes (framing limit)
        let mut payload = Vec::new();
        for wi in 0..nwords {
            let mut w = [0u8; 10];
            rng.fill(&mut w);
            w[9] = if rng.chance(p_unknown_id, 1000) {
                if rng.chance(1, 12) {
                    // an unknown ID that looks like padding (see the trailing-run adjustment below)
                    0xFF
                } else {
                    loop {
                        let id = rng.below(255) as u8;
                        if crate::words::kind_of_id(id) == Kind::Unknown {
                            break id;
                        }
                    }
                }
            } else {
                *rng.pick(&KNOWN_IDS)
            };
            if df != 0 && wi == 1 {
                // keep the tool's layout detection (bytes 10..15 of the payload all zero => format 0)
                // in agreement with the header: make sure they are not all zero
                if w[0..6].iter().all(|&b| b == 0) {
                    w[0] = 1;
                }
            }
            payload.extend_from_slice(&w);
            if df == 0 {
                payload.extend_from_slice(&[0u8; 6]);
            }
        }
        if df == 0 && nwords >= 2 && rng.chance(1, 6) {
            // the six filler bytes of a slot are not part of any word: 0xFF in the filler of the LAST slot must
            // not make that slot look like padding (not with a single word: bytes 10..15 of the payload are
            // what the tool recognises the layout by)
            let k = rng.range(1, 6) as usize;
            let n = payload.len();
            for b in payload[n - k..].iter_mut() {
                *b = 0xFF;
            }
        }
        if df != 0 {
            let mut pad = if rng.chance(1, 2) { (16 - payload.len() % 16) % 16 } else { rng.below(16) as usize };
            // a last word ending in 0xFF bytes (ID 0xFF) is only distinguishable from padding while the whole
            // trailing 0xFF run stays below 10 bytes: keep such payloads unambiguous
            let tail = payload.iter().rev().take_while(|&&b| b == 0xFF).count();
            if tail > 0 && tail + pad > 9 {
                pad = 9usize.saturating_sub(tail);
            }
            // a 10-byte payload followed by exactly 6 bytes that are not zero is fine (0xFF)
            payload.extend(std::iter::repeat(0xFF).take(pad));
        }
        let mut b = [0u8; 64];
        rng.fill(&mut b);
        let mut r = Rdh::from_bytes(&b);
        r.link_id = links[li];
        r.fee_id = fees[li];
        r.data_format = df;
        r.memory_size = (64 + payload.len()) as u16;
        r.offset_next = r.memory_size;
        r.system_id = if sane_headers { first_sys } else { *rng.pick(&SYS) };
        if sane_headers || rng.chance(1, 2) {
            r.version = version;
            r.header_size = 0x40;
            r.priority = 0;
            r.rdh0_reserved = 0;
            r.stop_bit = rng.below(2) as u8;
        }
        if i == 0 {
            r.version = version;
            r.header_size = 0x40;
            r.priority = 0;
            r.rdh0_reserved = 0;
            r.fee_id = fee_id(rng.below(7) as u8, rng.below(48) as u8, rng.below(4) as u8);
            r.system_id = first_sys;
        }
        out.extend_from_slice(&r.to_bytes());
        out.extend_from_slice(&payload);
    }
    out
}
