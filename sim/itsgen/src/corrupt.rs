//! Corruption faults (not tied to a documented rule; the catalogue of rule-breaking faults is in
//! `faults`): bit flips and extreme values in RDH fields and payload words, words inserted /
//! deleted / duplicated / reordered, packets lost / duplicated / reordered / spliced across links,
//! size fields inconsistent with the content, truncation.

use crate::gen::{Stream, WordInfo};
use crate::words::Kind;
use fpsim_rt::rng::Rng;

pub const KINDS: [&str; 14] = [
    "rdh_bit_flip",
    "rdh_field_extreme",
    "word_bit_flip",
    "word_id_change",
    "word_insert",
    "word_delete",
    "word_duplicate",
    "word_swap",
    "packet_loss",
    "packet_duplicate",
    "packet_swap",
    "packet_splice_link",
    "size_inconsistent",
    "excess_padding",
];

/// Apply one structure-aware corruption to the stream. Returns the fault kind applied.
pub fn corrupt_stream(s: &mut Stream, rng: &mut Rng) -> &'static str {
    if s.order.is_empty() {
        return "none";
    }
    let kind = *rng.pick(&KINDS);
    let idx = rng.usize_below(s.order.len());
    match kind {
        "rdh_bit_flip" => {
            let p = s.packet_mut(idx);
            let mut b = p.rdh.to_bytes();
            let bit = rng.usize_below(512);
            b[bit / 8] ^= 1 << (bit % 8);
            p.rdh = crate::rdh::Rdh::from_bytes(&b);
        }
        "rdh_field_extreme" => {
            let p = s.packet_mut(idx);
            let r = &mut p.rdh;
            match rng.below(16) {
                0 => r.version = *rng.pick(&[0, 1, 2, 3, 5, 8, 100, 101, 255]),
                1 => r.header_size = *rng.pick(&[0, 0x3F, 0x41, 0xFF]),
                2 => r.fee_id = *rng.pick(&[0xFFFF, 0x7000, 0x8000, 0x003F, 0x0030, 0x0400, 0x0040]),
                3 => r.system_id = *rng.pick(&[0, 1, 9, 31, 33, 254, 255]),
                4 => r.offset_next = *rng.pick(&[0, 1, 63, 64, 65, 10063, 10064, 10065, 0x7FFF, 0xFFFF]),
                5 => r.memory_size = *rng.pick(&[0, 1, 63, 64, 65, 10064, 10065, 0xFFFF]),
                6 => r.link_id = rng.below(256) as u8,
                7 => r.bc = *rng.pick(&[0xdeb, 0xdec, 0xFFF]),
                8 => r.orbit = *rng.pick(&[0, u32::MAX]),
                9 => r.data_format = *rng.pick(&[0, 1, 2, 3, 255]),
                10 => r.trigger_type = *rng.pick(&[0, u32::MAX, 0x8000, 0x0400_0000]),
                11 => r.pages_counter = *rng.pick(&[0, 1, 0x7FFF, 0xFFFF]),
                12 => r.stop_bit = *rng.pick(&[0, 1, 2, 255]),
                13 => r.detector_field = *rng.pick(&[0xF, 0x1000, 0x00FF_F000, u32::MAX]),
                14 => r.dw = *rng.pick(&[2, 15]),
                _ => r.priority = 1,
            }
        }
        "word_bit_flip" | "word_id_change" => {
            let p = s.packet_mut(idx);
            if !p.words.is_empty() {
                let wi = rng.usize_below(p.words.len());
                if kind == "word_bit_flip" {
                    let bit = rng.usize_below(80);
                    p.words[wi].word[bit / 8] ^= 1 << (bit % 8);
                } else {
                    p.words[wi].word[9] = *rng.pick(&[
                        0x00, 0x01, 0x1F, 0x20, 0x28, 0x29, 0x3F, 0x40, 0x47, 0x4F, 0x57, 0x5F, 0x60, 0xE0,
                        0xE4, 0xE5, 0xE8, 0xF0, 0xF8, 0xFF,
                    ]);
                }
            }
        }
        "word_insert" => {
            let p = s.packet_mut(idx);
            let wi = rng.usize_below(p.words.len() + 1);
            let mut w = [0u8; 10];
            rng.fill(&mut w);
            if rng.chance(1, 2) {
                w[9] = *rng.pick(&[0xE0, 0xE4, 0xE8, 0xF0, 0xF8, 0x20, 0x43]);
            }
            p.words.insert(wi, WordInfo { kind: Kind::Unknown, word: w });
            p.fix_sizes();
        }
        "word_delete" => {
            let p = s.packet_mut(idx);
            if !p.words.is_empty() {
                let wi = rng.usize_below(p.words.len());
                p.words.remove(wi);
                p.fix_sizes();
            }
        }
        "word_duplicate" => {
            let p = s.packet_mut(idx);
            if !p.words.is_empty() {
                let wi = rng.usize_below(p.words.len());
                let w = p.words[wi].clone();
                p.words.insert(wi, w);
                p.fix_sizes();
            }
        }
        "word_swap" => {
            let p = s.packet_mut(idx);
            if p.words.len() >= 2 {
                let wi = rng.usize_below(p.words.len() - 1);
                p.words.swap(wi, wi + 1);
            }
        }
        "packet_loss" => {
            s.order.remove(idx);
        }
        "packet_duplicate" => {
            let e = s.order[idx];
            s.order.insert(idx, e);
        }
        "packet_swap" => {
            if s.order.len() >= 2 {
                let i = rng.usize_below(s.order.len() - 1);
                s.order.swap(i, i + 1);
            }
        }
        "packet_splice_link" => {
            // a packet claims to come from another link / FEE
            if s.links.len() >= 2 {
                let other = rng.usize_below(s.links.len());
                let (lid, fee) = (s.links[other].link_id, s.links[other].fee_id);
                let p = s.packet_mut(idx);
                p.rdh.link_id = lid;
                if rng.chance(1, 2) {
                    p.rdh.fee_id = fee;
                }
            } else {
                s.packet_mut(idx).rdh.link_id ^= 1;
            }
        }
        "size_inconsistent" => {
            let p = s.packet_mut(idx);
            let real = p.rdh.memory_size;
            match rng.below(4) {
                0 => p.rdh.memory_size = real.saturating_sub(rng.range(1, 40) as u16).max(64),
                1 => p.rdh.memory_size = real.saturating_add(rng.range(1, 40) as u16),
                2 => p.rdh.offset_next = real.saturating_add(rng.range(1, 200) as u16),
                _ => p.rdh.offset_next = real.saturating_sub(rng.range(1, 40) as u16),
            }
        }
        "excess_padding" => {
            let p = s.packet_mut(idx);
            p.padding = rng.range(16, 40) as usize;
            p.fix_sizes();
        }
        _ => {}
    }
    kind
}

/// Byte-level corruption of an already serialised stream.
pub fn corrupt_bytes(data: &mut Vec<u8>, rng: &mut Rng) -> &'static str {
    if data.is_empty() {
        return "none";
    }
    match rng.below(5) {
        0 => {
            let i = rng.usize_below(data.len());
            data[i] ^= 1 << rng.below(8);
            "byte_bit_flip"
        }
        1 => {
            let k = rng.usize_below(data.len() + 1);
            data.truncate(k);
            "truncate"
        }
        2 => {
            let i = rng.usize_below(data.len());
            let n = rng.range(1, 64) as usize;
            let mut junk = vec![0u8; n];
            rng.fill(&mut junk);
            let tail = data.split_off(i);
            data.extend_from_slice(&junk);
            data.extend_from_slice(&tail);
            "insert_bytes"
        }
        3 => {
            let i = rng.usize_below(data.len());
            let n = (rng.range(1, 64) as usize).min(data.len() - i);
            data.drain(i..i + n);
            "delete_bytes"
        }
        _ => {
            let i = rng.usize_below(data.len());
            let n = (rng.range(1, 32) as usize).min(data.len() - i);
            for b in &mut data[i..i + n] {
                *b = 0xFF;
            }
            "ff_run"
        }
    }
}
