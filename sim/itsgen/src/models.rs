//! Reference models written from the documentation (doc/checks_list.md, the state diagram
//! doc/ITS_payload_fsm_continuous_mode.puml, README error-code families), independent of the code.
//! See DESIGN.md appendix C.

use crate::rdh::Rdh;
use crate::words::{self, Kind};

// ------------------------------------------------------------------------------------------------
// RDH sanity predicate
// ------------------------------------------------------------------------------------------------

/// True if the RDH violates at least one documented sanity condition. `first_version` is the
/// header version of the first RDH the link saw; `its` adds the ITS system-ID rule.
pub fn rdh_sanity_fails(r: &Rdh, first_version: u8, its: bool) -> bool {
    let fee_reserved = r.fee_id & 0b1000_1100_1100_0000 != 0;
    let layer = r.layer();
    let stave = r.stave();
    let spare_trigger_bits = r.trigger_type & 0b0000_0111_1111_1111_1000_0000_0000_0000 != 0;
    r.version != first_version
        || r.header_size != 0x40
        || fee_reserved
        || layer > 6
        || stave > 47
        || r.priority != 0
        || r.rdh0_reserved != 0
        || (its && r.system_id != 0x20)
        || r.bc > 0xdeb
        || r.rdh1_reserved != 0
        || r.stop_bit > 1
        || r.trigger_type == 0
        || spare_trigger_bits
        || r.rdh2_reserved != 0
        || r.rdh3_reserved != 0
        || r.detector_field & 0x00FF_F000 != 0
        || r.dw > 1
        || r.data_format > 2
}

// ------------------------------------------------------------------------------------------------
// RDH running automaton (per link)
// ------------------------------------------------------------------------------------------------

#[derive(Clone, Debug, Default)]
pub struct RunningModel {
    expected_page: u16,
    last: Option<Rdh>,
}

impl RunningModel {
    pub fn new() -> Self {
        Self::default()
    }
    /// Feed the next RDH of the link; true if the documented running rules flag it.
    /// (Compare to the expected counter, then increment / reset regardless of the outcome; orbit must
    /// change after a stop; orbit / trigger / FEE ID constant when the page counter is not 0.)
    pub fn flags(&mut self, r: &Rdh) -> bool {
        let mut flag = false;
        match r.stop_bit {
            0 => {
                if r.pages_counter != self.expected_page {
                    flag = true;
                }
                self.expected_page = self.expected_page.wrapping_add(1);
            }
            1 => {
                if r.pages_counter != self.expected_page {
                    flag = true;
                }
                self.expected_page = 0;
            }
            _ => flag = true,
        }
        if let Some(last) = &self.last {
            if last.stop_bit == 1 && r.orbit == last.orbit {
                flag = true;
            }
            if r.pages_counter != 0
                && (r.orbit != last.orbit || r.trigger_type != last.trigger_type || r.fee_id != last.fee_id)
            {
                flag = true;
            }
        }
        self.last = Some(r.clone());
        flag
    }
}

// ------------------------------------------------------------------------------------------------
// ITS payload state diagram (continuous mode)
// ------------------------------------------------------------------------------------------------

#[derive(Clone, Copy, Debug, PartialEq, Eq, Hash, PartialOrd, Ord)]
#[repr(u8)]
pub enum St {
    Ihw = 0,
    Tdh = 1,
    Data = 2,
    /// After a TDH with no_data = 1: TDH | IHW | DDW0
    AfterNoData = 3,
    /// After a TDT with packet_done = 1: TDH | IHW | DDW0
    AfterTdt = 4,
    CIhw = 5,
    CTdh = 6,
    CData = 7,
}

impl St {
    pub fn from_id(x: u8) -> Option<St> {
        Some(match x {
            0 => St::Ihw,
            1 => St::Tdh,
            2 => St::Data,
            3 => St::AfterNoData,
            4 => St::AfterTdt,
            5 => St::CIhw,
            6 => St::CTdh,
            7 => St::CData,
            _ => return None,
        })
    }
}

/// Word type the diagram assigns to a word (the classification the checker must return).
#[derive(Clone, Copy, Debug, PartialEq, Eq, Hash, PartialOrd, Ord)]
pub enum Class {
    Ihw,
    IhwContinuation,
    Tdh,
    TdhContinuation,
    TdhAfterPacketDone,
    Tdt,
    Cdw,
    Data,
    Ddw0,
}

/// Error family the documentation prescribes for a word whose ID is illegal in the state.
#[derive(Clone, Copy, Debug, PartialEq, Eq, Hash)]
pub enum IllegalFamily {
    /// single-successor state expecting an IHW
    E30,
    /// single-successor state expecting a TDH
    E40,
    /// choice state Data | TDT | CDW
    E991,
    /// choice state after a no-data TDH
    E990,
    /// choice state after a TDT with packet done
    E992,
}

impl IllegalFamily {
    pub fn code(&self) -> &'static str {
        match self {
            IllegalFamily::E30 => "E30",
            IllegalFamily::E40 => "E40",
            IllegalFamily::E991 => "E991",
            IllegalFamily::E990 => "E990",
            IllegalFamily::E992 => "E992",
        }
    }
}

#[derive(Clone, Copy, Debug, PartialEq, Eq)]
pub enum Step {
    /// Legal word: classification and successor state.
    Legal(Class, St),
    /// The word's ID is not legal in this state: it must be reported with this family at the word.
    /// The successor is not prescribed by the diagram.
    Illegal(IllegalFamily),
}

pub fn tdh_no_data(w: &[u8]) -> bool {
    w[1] & 0b10_0000 != 0
}
pub fn tdt_packet_done(w: &[u8]) -> bool {
    w[8] & 1 != 0
}

/// One step of the diagram.
pub fn diagram_step(st: St, w: &[u8]) -> Step {
    let id = w[9];
    let kind = words::kind_of_id(id);
    match st {
        St::Ihw => {
            if kind == Kind::Ihw {
                Step::Legal(Class::Ihw, St::Tdh)
            } else {
                Step::Illegal(IllegalFamily::E30)
            }
        }
        St::CIhw => {
            if kind == Kind::Ihw {
                Step::Legal(Class::IhwContinuation, St::CTdh)
            } else {
                Step::Illegal(IllegalFamily::E30)
            }
        }
        St::Tdh => {
            if kind == Kind::Tdh {
                Step::Legal(Class::Tdh, if tdh_no_data(w) { St::AfterNoData } else { St::Data })
            } else {
                Step::Illegal(IllegalFamily::E40)
            }
        }
        St::CTdh => {
            if kind == Kind::Tdh {
                Step::Legal(Class::TdhContinuation, St::CData)
            } else {
                Step::Illegal(IllegalFamily::E40)
            }
        }
        St::Data | St::CData => match kind {
            Kind::Data => Step::Legal(Class::Data, st),
            Kind::Cdw => Step::Legal(Class::Cdw, st),
            Kind::Tdt => {
                Step::Legal(Class::Tdt, if tdt_packet_done(w) { St::AfterTdt } else { St::CIhw })
            }
            _ => Step::Illegal(IllegalFamily::E991),
        },
        St::AfterNoData | St::AfterTdt => match kind {
            Kind::Tdh => Step::Legal(
                Class::TdhAfterPacketDone,
                if tdh_no_data(w) { St::AfterNoData } else { St::Data },
            ),
            Kind::Ihw => Step::Legal(Class::Ihw, St::Tdh),
            Kind::Ddw0 => Step::Legal(Class::Ddw0, St::Ihw),
            _ => Step::Illegal(if st == St::AfterNoData { IllegalFamily::E990 } else { IllegalFamily::E992 }),
        },
    }
}

/// Successor after a word whose ID is not legal in `st`, where the diagram prescribes one: the single-successor
/// states have an unguarded outgoing edge (IHW --> TDH, TDH --> after_TDH, and their continuation twins), so
/// whatever word sits in that position is taken as the expected word (and reported); `after_TDH` then
/// branches on the no_data bit of that word. In the choice states the diagram has no edge for such a word.
pub fn diagram_successor_after_illegal(st: St, w: &[u8]) -> Option<St> {
    match st {
        St::Ihw => Some(St::Tdh),
        St::CIhw => Some(St::CTdh),
        St::Tdh => Some(if tdh_no_data(w) { St::AfterNoData } else { St::Data }),
        St::CTdh => Some(St::CData),
        _ => None,
    }
}

/// Number of (state, word-kind) pairs of the diagram: 8 states x 7 kinds.
pub const DIAGRAM_PAIRS: usize = 8 * 7;
