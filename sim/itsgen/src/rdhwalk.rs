//! C10 workload: per-link RDH histories (RDH-only packets) that start at an HBF start with two
//! clean pages, then random-walk page counter / stop bit / orbit / trigger / FEE ID histories with
//! injected faults (1 in 5 of them doubled on the same RDH): every single-bit flip of the header (except the framing and link fields),
//! boundary values of the checked fields, packet loss / duplication / reordering. The expected
//! verdict per RDH comes from the reference models (sanity predicate, running automaton).

use crate::gen::{gen_trigger_type, merge_order, Merge};
use crate::models::{rdh_sanity_fails, RunningModel};
use crate::rdh::{fee_id, Rdh};
use fpsim_rt::rng::Rng;

pub struct RdhHistory {
    /// RDHs in wire order.
    pub wire: Vec<Rdh>,
    /// Fault kinds applied (for coverage).
    pub faults: Vec<&'static str>,
}

impl RdhHistory {
    pub fn bytes(&self) -> Vec<u8> {
        let mut b = Vec::with_capacity(self.wire.len() * 64);
        for r in &self.wire {
            b.extend_from_slice(&r.to_bytes());
        }
        b
    }
    /// (offsets with expected [E10], offsets with expected [E11]) under the reference models.
    pub fn expected(&self, its: bool) -> (Vec<u64>, Vec<u64>) {
        self.expected_with_version(its, None)
    }
    /// As `expected`; with `fixed_version` the header version every RDH is judged against is the
    /// configured one (custom checks `rdh_version`) instead of the first one the link saw.
    pub fn expected_with_version(&self, its: bool, fixed_version: Option<u8>) -> (Vec<u64>, Vec<u64>) {
        let mut first_version: std::collections::BTreeMap<u8, u8> = Default::default();
        let mut running: std::collections::BTreeMap<u8, RunningModel> = Default::default();
        let mut e10 = Vec::new();
        let mut e11 = Vec::new();
        for (i, r) in self.wire.iter().enumerate() {
            let off = (i * 64) as u64;
            let fv = match fixed_version {
                Some(v) => v,
                None => *first_version.entry(r.link_id).or_insert(r.version),
            };
            if rdh_sanity_fails(r, fv, its) {
                e10.push(off);
            }
            if running.entry(r.link_id).or_default().flags(r) {
                e11.push(off);
            }
        }
        (e10, e11)
    }
}

fn mutate(r: &mut Rdh, prev: Option<&Rdh>, rng: &mut Rng) -> &'static str {
    match rng.below(24) {
        0..=7 => {
            // single-bit flip anywhere except offset-to-next / memory size (framing) and link id (routing)
            loop {
                let bit = rng.usize_below(512);
                let byte = bit / 8;
                if (8..=12).contains(&byte) {
                    continue;
                }
                let mut b = r.to_bytes();
                b[byte] ^= 1 << (bit % 8);
                *r = Rdh::from_bytes(&b);
                break;
            }
            "bit_flip"
        }
        8 => {
            r.bc = *rng.pick(&[0xdeb, 0xdec, 0xdea, 0xfff]);
            "bc_boundary"
        }
        9 => {
            let stave = *rng.pick(&[47u8, 48, 63]);
            r.fee_id = (r.fee_id & !0x3F) | stave as u16;
            "stave_boundary"
        }
        10 => {
            let layer = *rng.pick(&[6u16, 7]);
            r.fee_id = (r.fee_id & !(0x7 << 12)) | (layer << 12);
            "layer_boundary"
        }
        11 => {
            r.stop_bit = *rng.pick(&[0u8, 1, 2, 255]);
            "stop_bit_value"
        }
        12 => {
            r.data_format = *rng.pick(&[0u8, 1, 2, 3]);
            "data_format_boundary"
        }
        13 => {
            r.dw = *rng.pick(&[0u8, 1, 2]);
            "dw_boundary"
        }
        14 => {
            match rng.below(3) {
                0 => r.trigger_type |= 1 << rng.range(15, 26),
                1 => r.trigger_type = 0,
                _ => r.trigger_type ^= 1 << rng.range(0, 14),
            }
            "trigger_bits"
        }
        15 => {
            r.detector_field ^= 1 << rng.range(0, 31);
            "detector_field_bit"
        }
        16 => {
            r.system_id = *rng.pick(&[0x20u8, 0x21, 0, 3]);
            "system_id"
        }
        17 => {
            r.pages_counter = r.pages_counter.wrapping_add(*rng.pick(&[1u16, 2, 0xFFFF]));
            "page_counter_jump"
        }
        18 => {
            r.stop_bit ^= 1;
            "stop_bit_toggle"
        }
        19 => {
            if let Some(p) = prev {
                r.orbit = p.orbit;
            }
            "orbit_same_as_previous"
        }
        20 => {
            r.orbit = r.orbit.wrapping_add(1 + rng.below(5) as u32);
            "orbit_change"
        }
        21 => {
            r.trigger_type = gen_trigger_type(rng);
            "trigger_change"
        }
        22 => {
            r.fee_id = fee_id(rng.below(7) as u8, rng.below(48) as u8, rng.below(4) as u8);
            "fee_change"
        }
        _ => {
            r.version = *rng.pick(&[6u8, 7, 5, 8]);
            "version_change"
        }
    }
}

pub fn gen_history(rng: &mut Rng, n_links: usize, hbfs_per_link: u64, p_fault_permille: u64) -> RdhHistory {
    let version = if rng.chance(1, 2) { 6 } else { 7 };
    let mut per_link: Vec<Vec<Rdh>> = Vec::new();
    let mut faults: Vec<&'static str> = Vec::new();
    let mut used: Vec<u8> = Vec::new();
    for _ in 0..n_links {
        let link_id = loop {
            let l = rng.below(12) as u8;
            if !used.contains(&l) {
                break l;
            }
            if used.len() >= 12 {
                break rng.range(12, 255) as u8;
            }
        };
        used.push(link_id);
        let fee = fee_id(rng.below(7) as u8, rng.below(48) as u8, rng.below(4) as u8);
        let mut seq: Vec<Rdh> = Vec::new();
        let mut orbit = if rng.chance(1, 4) { u32::MAX - rng.below(4) as u32 } else { rng.next_u32() };
        let n_hbf = rng.range(1, hbfs_per_link.max(1));
        let mut pc = rng.below(256) as u8;
        for h in 0..n_hbf {
            let tt = gen_trigger_type(rng);
            let pages = if h == 0 { rng.range(1, 5) } else { rng.range(1, 4) };
            let det = rng.next_u32() & 0xFF00_0FFF & if rng.chance(1, 2) { 0xF } else { !0 };
            for p in 0..=pages {
                seq.push(Rdh {
                    version,
                    fee_id: fee,
                    link_id,
                    packet_counter: pc,
                    bc: rng.below(0xdeb + 1) as u16,
                    orbit,
                    data_format: if rng.chance(1, 2) { 0 } else { 2 },
                    trigger_type: tt,
                    pages_counter: p as u16,
                    stop_bit: (p == pages) as u8,
                    detector_field: det,
                    cru_id: 0x18,
                    dw: rng.below(2) as u8,
                    ..Default::default()
                });
                pc = pc.wrapping_add(1);
            }
            orbit = if rng.chance(1, 3) {
                // arbitrary (non-monotonic) next orbit, only required to differ
                loop {
                    let o = rng.next_u32();
                    if o != orbit {
                        break o;
                    }
                }
            } else {
                orbit.wrapping_add(1 + rng.below(3) as u32)
            };
        }
        // faults from the third RDH on (the first two pages stay clean, as the quantifier says)
        let mut i = 2;
        while i < seq.len() {
            if rng.chance(p_fault_permille, 1000) {
                match rng.below(10) {
                    0 => {
                        seq.remove(i);
                        faults.push("packet_loss");
                        continue;
                    }
                    1 => {
                        let d = seq[i].clone();
                        seq.insert(i, d);
                        faults.push("packet_duplication");
                        i += 2;
                        continue;
                    }
                    2 if i + 1 < seq.len() => {
                        seq.swap(i, i + 1);
                        faults.push("packet_reorder");
                        i += 2;
                        continue;
                    }
                    _ => {
                        let prev = if i > 0 { Some(seq[i - 1].clone()) } else { None };
                        let k = mutate(&mut seq[i], prev.as_ref(), rng);
                        faults.push(k);
                        // 1 in 5: a second deviation in the same RDH (rules must not hide behind one another)
                        if rng.chance(1, 5) {
                            let k2 = mutate(&mut seq[i], prev.as_ref(), rng);
                            faults.push(k2);
                            faults.push("two_deviations_in_one_rdh");
                        }
                    }
                }
            }
            i += 1;
        }
        // 1 link in 6 (never the first one, whose first RDH may open the stream and must pass the initial
        // RDH0 check): sanity-only faults on the link's FIRST RDH - one, or two at once (e.g. another version
        // AND a reserved bit): what the link "saw first" is that RDH, faulty or not
        if !per_link.is_empty() && p_fault_permille > 0 && rng.chance(1, 6) {
            let n_mut = if rng.chance(1, 2) { 2 } else { 1 };
            for k in 0..n_mut {
                let r = &mut seq[0];
                match if k == 0 { rng.below(2) } else { 1 + rng.below(6) } {
                    0 => r.version = if r.version == 6 { 7 } else { 6 },
                    1 => r.priority = 1,
                    2 => r.rdh0_reserved = 1 + rng.below(0xFFFF) as u16,
                    3 => r.fee_id |= 0x8000,
                    4 => r.system_id = 0x21,
                    5 => r.header_size = 0x41,
                    _ => r.fee_id = (r.fee_id & !0x3F) | 48,
                }
            }
            faults.push("first_rdh_of_link");
        }
        per_link.push(seq);
    }
    let lens: Vec<usize> = per_link.iter().map(|s| s.len()).collect();
    let merge = *rng.pick(&[Merge::Contiguous, Merge::RoundRobin, Merge::Random]);
    let mut order = merge_order(&lens, merge, rng);
    // the stream opens with the first RDH of link 0 (the one that is never mutated): moving a link's first
    // packet to the front keeps every link's own order
    if let Some(k) = order.iter().position(|&(l, p)| l == 0 && p == 0) {
        let first = order.remove(k);
        order.insert(0, first);
    }
    let mut wire: Vec<Rdh> = order.into_iter().map(|(l, p)| per_link[l][p].clone()).collect();
    for r in wire.iter_mut() {
        r.memory_size = 64;
        r.offset_next = 64;
    }
    // the very first RDH of the stream must pass the initial RDH0 check (documented fatal otherwise):
    // it is one of the clean first pages by construction (faults start at the third RDH of a link)
    RdhHistory { wire, faults }
}
