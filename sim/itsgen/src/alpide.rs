//! Independent ALPIDE lane-stream encoder with ground truth. A lane's byte stream is a sequence of
//! chip blocks; each block is `CHIP_HEADER|id, BC, (REGION_HEADER, hits*)*, CHIP_TRAILER|flags` or
//! `CHIP_EMPTY_FRAME|id, BC`. BUSY_ON/BUSY_OFF may appear between words; 0x00 padding only outside
//! chip data. The stream is cut into 9-byte chunks, one per data word.

use fpsim_rt::rng::Rng;

#[derive(Clone, Debug, PartialEq)]
pub struct Chip {
    pub id: u8,  // 4 bits
    pub bc: u8,  // bits [10:3] of the bunch counter
    pub empty: bool,
    pub flags: u8, // 4 readout-flag bits of the trailer (ignored for empty frames)
}

#[derive(Clone, Debug, PartialEq)]
pub struct LaneFrame {
    /// Data-word ID of the lane.
    pub lane_id: u8,
    pub chips: Vec<Chip>,
    /// A fatal APE byte to emit (lane announces FATAL state), if any.
    pub fatal_ape: Option<u8>,
}

pub const FATAL_APES: [u8; 9] = [0xF4, 0xF5, 0xF6, 0xF7, 0xF8, 0xF9, 0xFA, 0xFB, 0xFC];
pub const WARNING_APES: [u8; 3] = [0xF2, 0xFD, 0xFE];

/// Encode one lane's frame content. `hit_rng` drives only the pixel-hit content (regions, hit
/// words, busy words, padding): two encodings of the same `LaneFrame` with different `hit_rng`
/// differ only in content the checks must ignore.
pub fn encode_lane(lf: &LaneFrame, hit_rng: &mut Rng, max_hits: usize) -> Vec<u8> {
    let mut out = Vec::new();
    let pad = |out: &mut Vec<u8>, rng: &mut Rng| {
        // padding and busy words between chip blocks
        if rng.chance(1, 4) {
            for _ in 0..rng.range(1, 3) {
                out.push(0x00);
            }
        }
        if rng.chance(1, 8) {
            out.push(0xF1); // BUSY_ON (0xF1) / BUSY_OFF (0xF0) per ALPIDE manual; both are ignored
        }
        if rng.chance(1, 8) {
            out.push(0xF0);
        }
    };
    if let Some(ape) = lf.fatal_ape {
        pad(&mut out, hit_rng);
        out.push(ape);
    }
    for c in &lf.chips {
        pad(&mut out, hit_rng);
        if c.empty {
            out.push(0xE0 | (c.id & 0xF));
            out.push(c.bc);
        } else {
            out.push(0xA0 | (c.id & 0xF));
            out.push(c.bc);
            let regions = hit_rng.range(0, 3);
            let mut region_id = 0u8;
            for _ in 0..regions {
                out.push(0xC0 | (region_id & 0x1F));
                region_id = region_id.wrapping_add(1 + hit_rng.below(4) as u8);
                let hits = hit_rng.below(max_hits as u64 + 1);
                for _ in 0..hits {
                    if hit_rng.chance(1, 2) {
                        // DATA SHORT: 01 eeee aa | aaaaaaaa
                        out.push(0x40 | (hit_rng.below(64) as u8));
                        out.push(hit_rng.below(256) as u8);
                    } else {
                        // DATA LONG: 00 eeee aa | aaaaaaaa | 0 hhhhhhh
                        out.push(hit_rng.below(64) as u8);
                        out.push(hit_rng.below(256) as u8);
                        out.push(hit_rng.below(128) as u8);
                    }
                    if hit_rng.chance(1, 16) {
                        out.push(if hit_rng.chance(1, 2) { 0xF0 } else { 0xF1 });
                    }
                }
            }
            out.push(0xB0 | (c.flags & 0xF));
        }
    }
    pad(&mut out, hit_rng);
    // 1 in 10: the lane goes on sending padding for a while (whole data words of 0x00 behind its chip data)
    if hit_rng.chance(1, 10) {
        for _ in 0..hit_rng.range(9, 20) {
            out.push(0x00);
        }
    }
    out
}

/// Cut a lane stream into 9-byte chunks (zero padded), one per data word.
pub fn chunk9(stream: &[u8]) -> Vec<[u8; 9]> {
    let mut v = Vec::new();
    for c in stream.chunks(9) {
        let mut a = [0u8; 9];
        a[..c.len()].copy_from_slice(c);
        v.push(a);
    }
    if v.is_empty() {
        v.push([0u8; 9]);
    }
    v
}
