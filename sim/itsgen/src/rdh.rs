//! Independent model of the 64-byte RDH (v6/v7) — little endian, written from the RDH layout, not
//! from the tool's structs.

#[derive(Clone, Debug, PartialEq, Eq)]
pub struct Rdh {
    pub version: u8,
    pub header_size: u8,
    pub fee_id: u16,
    pub priority: u8,
    pub system_id: u8,
    pub rdh0_reserved: u16,
    pub offset_next: u16,
    pub memory_size: u16,
    pub link_id: u8,
    pub packet_counter: u8,
    pub cru_id: u16, // 12 bits
    pub dw: u8,      // 4 bits
    pub bc: u16,     // 12 bits
    pub rdh1_reserved: u32, // 20 bits
    pub orbit: u32,
    pub data_format: u8,
    pub df_reserved: u64, // 56 bits
    pub trigger_type: u32,
    pub pages_counter: u16,
    pub stop_bit: u8,
    pub rdh2_reserved: u8,
    pub reserved1: u64,
    pub detector_field: u32,
    pub par_bit: u16,
    pub rdh3_reserved: u16,
    pub reserved2: u64,
}

impl Default for Rdh {
    fn default() -> Self {
        Rdh {
            version: 7,
            header_size: 0x40,
            fee_id: 0,
            priority: 0,
            system_id: 0x20,
            rdh0_reserved: 0,
            offset_next: 64,
            memory_size: 64,
            link_id: 0,
            packet_counter: 0,
            cru_id: 0,
            dw: 0,
            bc: 0,
            rdh1_reserved: 0,
            orbit: 0,
            data_format: 2,
            df_reserved: 0,
            trigger_type: 0x6A03,
            pages_counter: 0,
            stop_bit: 0,
            rdh2_reserved: 0,
            reserved1: 0,
            detector_field: 0,
            par_bit: 0,
            rdh3_reserved: 0,
            reserved2: 0,
        }
    }
}

impl Rdh {
    pub fn to_bytes(&self) -> [u8; 64] {
        let mut b = [0u8; 64];
        b[0] = self.version;
        b[1] = self.header_size;
        b[2..4].copy_from_slice(&self.fee_id.to_le_bytes());
        b[4] = self.priority;
        b[5] = self.system_id;
        b[6..8].copy_from_slice(&self.rdh0_reserved.to_le_bytes());
        b[8..10].copy_from_slice(&self.offset_next.to_le_bytes());
        b[10..12].copy_from_slice(&self.memory_size.to_le_bytes());
        b[12] = self.link_id;
        b[13] = self.packet_counter;
        let cd: u16 = (self.cru_id & 0x0FFF) | ((self.dw as u16 & 0xF) << 12);
        b[14..16].copy_from_slice(&cd.to_le_bytes());
        let bcres: u32 = (self.bc as u32 & 0xFFF) | ((self.rdh1_reserved & 0xFFFFF) << 12);
        b[16..20].copy_from_slice(&bcres.to_le_bytes());
        b[20..24].copy_from_slice(&self.orbit.to_le_bytes());
        let df: u64 = self.data_format as u64 | (self.df_reserved << 8);
        b[24..32].copy_from_slice(&df.to_le_bytes());
        b[32..36].copy_from_slice(&self.trigger_type.to_le_bytes());
        b[36..38].copy_from_slice(&self.pages_counter.to_le_bytes());
        b[38] = self.stop_bit;
        b[39] = self.rdh2_reserved;
        b[40..48].copy_from_slice(&self.reserved1.to_le_bytes());
        b[48..52].copy_from_slice(&self.detector_field.to_le_bytes());
        b[52..54].copy_from_slice(&self.par_bit.to_le_bytes());
        b[54..56].copy_from_slice(&self.rdh3_reserved.to_le_bytes());
        b[56..64].copy_from_slice(&self.reserved2.to_le_bytes());
        b
    }

    pub fn from_bytes(b: &[u8]) -> Rdh {
        assert!(b.len() >= 64);
        let u16at = |i: usize| u16::from_le_bytes([b[i], b[i + 1]]);
        let u32at = |i: usize| u32::from_le_bytes([b[i], b[i + 1], b[i + 2], b[i + 3]]);
        let u64at = |i: usize| {
            let mut a = [0u8; 8];
            a.copy_from_slice(&b[i..i + 8]);
            u64::from_le_bytes(a)
        };
        let cd = u16at(14);
        let bcres = u32at(16);
        let df = u64at(24);
        Rdh {
            version: b[0],
            header_size: b[1],
            fee_id: u16at(2),
            priority: b[4],
            system_id: b[5],
            rdh0_reserved: u16at(6),
            offset_next: u16at(8),
            memory_size: u16at(10),
            link_id: b[12],
            packet_counter: b[13],
            cru_id: cd & 0x0FFF,
            dw: (cd >> 12) as u8,
            bc: (bcres & 0xFFF) as u16,
            rdh1_reserved: bcres >> 12,
            orbit: u32at(20),
            data_format: (df & 0xFF) as u8,
            df_reserved: df >> 8,
            trigger_type: u32at(32),
            pages_counter: u16at(36),
            stop_bit: b[38],
            rdh2_reserved: b[39],
            reserved1: u64at(40),
            detector_field: u32at(48),
            par_bit: u16at(52),
            rdh3_reserved: u16at(54),
            reserved2: u64at(56),
        }
    }

    pub fn layer(&self) -> u8 {
        ((self.fee_id >> 12) & 0x7) as u8
    }
    pub fn stave(&self) -> u8 {
        (self.fee_id & 0x3F) as u8
    }
    /// Payload length implied by the memory size (saturating).
    pub fn payload_len(&self) -> usize {
        (self.memory_size as usize).saturating_sub(64)
    }
}

pub fn fee_id(layer: u8, stave: u8, fiber: u8) -> u16 {
    ((layer as u16 & 0x7) << 12) | ((fiber as u16 & 0x3) << 8) | (stave as u16 & 0x3F)
}

/// `-s` filter comparison: layer and stave bits only.
pub fn layer_stave_match(a: u16, b: u16) -> bool {
    const M: u16 = 0b0111_0000_0011_1111;
    (a & M) == (b & M)
}
