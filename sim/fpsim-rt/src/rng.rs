//! Small deterministic PRNG (splitmix64 seeding, xoshiro256**). No external dependency so that
//! one integer fixes every choice of a run.

#[derive(Clone, Debug)]
pub struct Rng {
    s: [u64; 4],
}

#[inline]
pub fn splitmix64(x: &mut u64) -> u64 {
    *x = x.wrapping_add(0x9E37_79B9_7F4A_7C15);
    let mut z = *x;
    z = (z ^ (z >> 30)).wrapping_mul(0xBF58_476D_1CE4_E5B9);
    z = (z ^ (z >> 27)).wrapping_mul(0x94D0_49BB_1331_11EB);
    z ^ (z >> 31)
}

/// Mix several integers into one seed (order sensitive).
pub fn mix(parts: &[u64]) -> u64 {
    let mut h: u64 = 0x51_7C_C1_B7_27_22_0A_95;
    for p in parts {
        let mut x = h ^ p.wrapping_mul(0x9E37_79B9_7F4A_7C15);
        h = splitmix64(&mut x);
    }
    h
}

/// FNV-1a style 64-bit hash of bytes (used for trace / input hashes; stable across runs).
pub fn hash_bytes(data: &[u8]) -> u64 {
    let mut h: u64 = 0xcbf2_9ce4_8422_2325;
    for b in data {
        h ^= *b as u64;
        h = h.wrapping_mul(0x0000_0100_0000_01B3);
    }
    // final avalanche
    let mut x = h;
    splitmix64(&mut x)
}

impl Rng {
    pub fn new(seed: u64) -> Self {
        let mut x = seed;
        let s = [
            splitmix64(&mut x),
            splitmix64(&mut x),
            splitmix64(&mut x),
            splitmix64(&mut x),
        ];
        Rng { s }
    }

    /// Derive an independent stream.
    pub fn fork(&mut self, tag: u64) -> Rng {
        let a = self.next_u64();
        Rng::new(mix(&[a, tag]))
    }

    #[inline]
    pub fn next_u64(&mut self) -> u64 {
        let result = self.s[1].wrapping_mul(5).rotate_left(7).wrapping_mul(9);
        let t = self.s[1] << 17;
        self.s[2] ^= self.s[0];
        self.s[3] ^= self.s[1];
        self.s[1] ^= self.s[2];
        self.s[0] ^= self.s[3];
        self.s[2] ^= t;
        self.s[3] = self.s[3].rotate_left(45);
        result
    }

    #[inline]
    pub fn next_u32(&mut self) -> u32 {
        (self.next_u64() >> 32) as u32
    }

    /// Uniform in 0..n (n > 0).
    #[inline]
    pub fn below(&mut self, n: u64) -> u64 {
        debug_assert!(n > 0);
        if n == 0 {
            return 0;
        }
        // multiply-shift; bias negligible for our n
        ((self.next_u64() as u128 * n as u128) >> 64) as u64
    }

    /// Uniform in lo..=hi.
    #[inline]
    pub fn range(&mut self, lo: u64, hi: u64) -> u64 {
        if hi <= lo {
            return lo;
        }
        lo + self.below(hi - lo + 1)
    }

    #[inline]
    pub fn usize_below(&mut self, n: usize) -> usize {
        self.below(n as u64) as usize
    }

    /// True with probability num/den.
    #[inline]
    pub fn chance(&mut self, num: u64, den: u64) -> bool {
        self.below(den) < num
    }

    pub fn pick<'a, T>(&mut self, xs: &'a [T]) -> &'a T {
        &xs[self.usize_below(xs.len())]
    }

    pub fn shuffle<T>(&mut self, xs: &mut [T]) {
        for i in (1..xs.len()).rev() {
            let j = self.usize_below(i + 1);
            xs.swap(i, j);
        }
    }

    pub fn fill(&mut self, buf: &mut [u8]) {
        for chunk in buf.chunks_mut(8) {
            let v = self.next_u64().to_le_bytes();
            chunk.copy_from_slice(&v[..chunk.len()]);
        }
    }
}
