//! The deterministic scheduler: exactly one managed thread executes at any instant; at every
//! decision point (channel operation, spawn, join, thread exit) the run's policy decides which thread
//! continues. All choices derive from the run seed or from a recorded decision list (replay).

use crate::rng::{mix, Rng};
use std::cell::Cell;
use std::collections::BTreeMap;
use std::sync::atomic::{AtomicBool, AtomicU64, AtomicUsize, Ordering};
use std::sync::{Arc, Condvar, Mutex, MutexGuard};
use std::thread::ThreadId;
use std::time::{Duration, Instant};

/// Marker payload used to unwind managed threads when a run is aborted (deadlock, budget, leak).
pub struct AbortRun;

#[derive(Clone, Debug, PartialEq)]
pub enum Policy {
    /// Run the current thread until it blocks, then the lowest thread id: the reference execution.
    Canonical,
    /// Switch with probability `p_permille`/1000 at each decision point, uniformly among runnable.
    Random { p_permille: u32 },
    /// PCT: random priorities, `d` priority change points.
    Pct { d: u32 },
    /// A stalled thread: `victim` (index modulo live threads, skipping T0 when possible) is not
    /// scheduled during steps [from, from+window) unless nothing else can run.
    Starve { victim: u32, from: u64, window: u64 },
    /// Follow a recorded decision list; when it is exhausted or inapplicable fall back to canonical.
    Replay,
}

impl Policy {
    pub fn name(&self) -> String {
        match self {
            Policy::Canonical => "canonical".into(),
            Policy::Random { p_permille } => format!("random({})", *p_permille as f64 / 1000.0),
            Policy::Pct { d } => format!("pct({d})"),
            Policy::Starve { victim, from, window } => format!("starve({victim},{from},{window})"),
            Policy::Replay => "replay".into(),
        }
    }
}

#[derive(Clone, Debug)]
pub struct RunConfig {
    pub policy: Policy,
    pub seed: u64,
    /// Upper bound applied to the capacity of every bounded channel created in the run.
    pub cap_limit: Option<usize>,
    /// Abort the run when this many decision points have been passed (bounded liveness).
    pub step_budget: u64,
    /// Abort the run when this many decision points have been passed after the injected stop event.
    pub budget_after_stop: Option<u64>,
    /// Estimate of the run length, used by PCT to place its change points.
    pub expected_steps: u64,
    /// Inject the stop event (the store the signal handler performs) at this decision step.
    pub stop_at_step: Option<u64>,
    /// Decision list for `Policy::Replay` (one entry per decision point with >= 2 runnable threads).
    pub replay: Vec<u16>,
}

impl Default for RunConfig {
    fn default() -> Self {
        RunConfig {
            policy: Policy::Canonical,
            seed: 0,
            cap_limit: None,
            step_budget: 5_000_000,
            budget_after_stop: None,
            expected_steps: 2000,
            stop_at_step: None,
            replay: Vec::new(),
        }
    }
}

#[derive(Clone, Copy, Debug, PartialEq, Eq)]
pub enum Cond {
    Always,
    CanSend(usize),
    CanRecv(usize),
    Joinable(usize),
    AllOthersDone,
    /// Blocked in a system call that does not return (stalled input).
    Never,
}

#[derive(Clone, Copy, Debug, PartialEq, Eq)]
#[repr(u8)]
pub enum OpKind {
    Start = 0,
    Spawn = 1,
    Send = 2,
    Recv = 3,
    TryRecv = 4,
    TrySend = 5,
    Join = 6,
    Exit = 7,
    Yield = 8,
    Drain = 9,
    Stall = 10,
}

#[derive(Clone, Debug, Default)]
pub struct PanicInfo {
    pub thread: String,
    pub tid: usize,
    pub location: String,
    pub message: String,
}

#[derive(Clone, Debug, Default)]
pub struct Outcome {
    pub steps: u64,
    pub switches: u64,
    pub decisions: Vec<u16>,
    pub trace_hash: u64,
    pub threads: usize,
    pub thread_names: Vec<String>,
    pub panics: Vec<PanicInfo>,
    pub deadlock: Option<String>,
    pub budget_exceeded: bool,
    pub leaked_threads: Vec<String>,
    pub unmanaged_ops: u64,
    pub stop_injected_at: Option<u64>,
    /// name -> count; "this condition was hit" probes
    pub probes: BTreeMap<&'static str, u64>,
    /// Hash of the sequence of sending thread ids observed at the first flume channel created in
    /// the run (the statistics channel): the collector arrival order.
    pub arrival_hash: u64,
    pub arrival_msgs: u64,
    pub max_runnable: usize,
    pub aborted: bool,
    /// At the first step at which the stop flag is seen set: (largest number of undelivered messages in one
    /// data queue (crossbeam), largest capacity among the bounded data queues of the run).
    pub backlog_at_stop: Option<(u64, u64)>,
    /// Largest capacity requested for a bounded data queue (slots allocated at creation by the real crate).
    pub max_capacity_request: u64,
    /// Managed threads that had not finished when the program's main function returned.
    pub alive_at_main_return: Vec<String>,
}

impl Outcome {
    pub fn clean(&self) -> bool {
        self.panics.is_empty()
            && self.deadlock.is_none()
            && !self.budget_exceeded
            && self.leaked_threads.is_empty()
    }
}

#[derive(PartialEq, Clone, Copy, Debug)]
enum ThState {
    Ready,
    Running,
    Finished,
}

struct Th {
    cv: Arc<Condvar>,
    state: ThState,
    name: String,
    pending: Cond,
    prio: u64,
    std_id: Option<ThreadId>,
}

pub struct ChanMeta {
    pub len: AtomicUsize,
    pub cap: usize,
    pub senders: AtomicUsize,
    pub receivers: AtomicUsize,
    pub arrival_hash: AtomicU64,
    pub sends: AtomicU64,
    pub is_flume: bool,
}

pub(crate) struct Rt {
    pub(crate) active: bool,
    pub(crate) aborting: bool,
    pub(crate) gen: u64,
    cfg: RunConfig,
    threads: Vec<Th>,
    pub(crate) chans: Vec<Arc<ChanMeta>>,
    current: usize,
    rng: Rng,
    replay_pos: usize,
    pct_points: Vec<u64>,
    pct_low: u64,
    stop_flag: Option<Arc<AtomicBool>>,
    pub(crate) out: Outcome,
}

static RT: Mutex<Option<Rt>> = Mutex::new(None);
static GEN: AtomicU64 = AtomicU64::new(0);
static LIVE_OS_THREADS: AtomicUsize = AtomicUsize::new(0);
/// Monotone progress counter for the watchdog (incremented at every decision point).
pub static PROGRESS: AtomicU64 = AtomicU64::new(0);
pub static RUN_ACTIVE: AtomicBool = AtomicBool::new(false);

thread_local! {
    // (generation, tid); generation 0 = unmanaged
    static CTX: Cell<(u64, usize)> = const { Cell::new((0, 0)) };
}

pub(crate) enum Ctx {
    /// Managed thread of the active run, scheduling in force.
    Managed(usize),
    /// Managed thread while the run is being aborted, or a thread that is already unwinding:
    /// operations must not block and must not panic.
    Free,
    /// A thread the scheduler does not know.
    Unmanaged,
}

fn lock_rt() -> MutexGuard<'static, Option<Rt>> {
    match RT.lock() {
        Ok(g) => g,
        Err(p) => p.into_inner(),
    }
}

pub(crate) fn my_ctx() -> (u64, usize) {
    CTX.try_with(|c| c.get()).unwrap_or((0, 0))
}

/// True if the calling thread is a managed thread of the currently active run (used by the I/O
/// interposers; must not allocate or take the RT lock).
pub fn is_managed_thread() -> bool {
    let (gen, _) = my_ctx();
    gen != 0 && gen == GEN.load(Ordering::Relaxed) && RUN_ACTIVE.load(Ordering::Relaxed)
}

pub fn current_tid() -> Option<usize> {
    let (gen, tid) = my_ctx();
    if gen != 0 && gen == GEN.load(Ordering::Relaxed) {
        Some(tid)
    } else {
        None
    }
}

pub(crate) fn ctx() -> Ctx {
    let (gen, tid) = my_ctx();
    if gen == 0 || gen != GEN.load(Ordering::Relaxed) {
        return Ctx::Unmanaged;
    }
    if std::thread::panicking() {
        return Ctx::Free;
    }
    let g = lock_rt();
    match g.as_ref() {
        Some(rt) if rt.active && !rt.aborting => Ctx::Managed(tid),
        Some(_) => Ctx::Free,
        None => Ctx::Unmanaged,
    }
}

pub fn probe(name: &'static str) {
    let mut g = lock_rt();
    if let Some(rt) = g.as_mut() {
        if rt.active {
            *rt.out.probes.entry(name).or_insert(0) += 1;
        }
    }
}

pub fn note_unmanaged_op() {
    let mut g = lock_rt();
    if let Some(rt) = g.as_mut() {
        if rt.active {
            rt.out.unmanaged_ops += 1;
        }
    }
}

/// Register the flag that the injected stop event sets.
pub fn set_stop_flag(flag: Arc<AtomicBool>) {
    let mut g = lock_rt();
    if let Some(rt) = g.as_mut() {
        rt.stop_flag = Some(flag);
    }
}

pub(crate) fn note_capacity_request(cap: usize) {
    let mut g = lock_rt();
    if let Some(rt) = g.as_mut() {
        if rt.active {
            rt.out.max_capacity_request = rt.out.max_capacity_request.max(cap as u64);
        }
    }
}

/// The stop event, delivered now (from the input seam: a signal arriving while a thread is between two
/// decision points).
pub(crate) fn inject_stop_now() {
    let mut g = lock_rt();
    if let Some(rt) = g.as_mut() {
        if let Some(f) = &rt.stop_flag {
            f.store(true, Ordering::SeqCst);
            rt.out.stop_injected_at = Some(rt.out.steps);
            crate::io::mark_stop();
        }
    }
}

/// Record a panic of a managed thread (called from the panic hook).
pub fn record_panic(location: String, message: String) {
    let (gen, tid) = my_ctx();
    let mut g = lock_rt();
    if let Some(rt) = g.as_mut() {
        if rt.active && gen == rt.gen {
            let name = rt.threads.get(tid).map(|t| t.name.clone()).unwrap_or_default();
            rt.out.panics.push(PanicInfo { thread: name, tid, location, message });
        }
    }
}

pub(crate) fn register_chan(meta: &Arc<ChanMeta>) -> (u64, usize) {
    let (gen, _) = my_ctx();
    let mut g = lock_rt();
    match g.as_mut() {
        Some(rt) if rt.active && gen == rt.gen => {
            rt.chans.push(meta.clone());
            (rt.gen, rt.chans.len() - 1)
        }
        _ => (0, usize::MAX),
    }
}

pub(crate) fn cap_limit() -> Option<usize> {
    let (gen, _) = my_ctx();
    let g = lock_rt();
    match g.as_ref() {
        Some(rt) if rt.active && gen == rt.gen => rt.cfg.cap_limit,
        _ => None,
    }
}

impl Rt {
    fn cond_holds(&self, me: usize, c: Cond) -> bool {
        match c {
            Cond::Always => true,
            Cond::CanSend(id) => {
                let m = &self.chans[id];
                m.len.load(Ordering::SeqCst) < m.cap || m.receivers.load(Ordering::SeqCst) == 0
            }
            Cond::CanRecv(id) => {
                let m = &self.chans[id];
                m.len.load(Ordering::SeqCst) > 0 || m.senders.load(Ordering::SeqCst) == 0
            }
            Cond::Joinable(t) => self.threads.get(t).map_or(true, |t| t.state == ThState::Finished),
            Cond::Never => false,
            Cond::AllOthersDone => self
                .threads
                .iter()
                .enumerate()
                .all(|(i, t)| i == me || t.state == ThState::Finished),
        }
    }

    fn runnable(&self) -> Vec<usize> {
        let mut v = Vec::new();
        for (i, t) in self.threads.iter().enumerate() {
            if t.state != ThState::Finished && self.cond_holds(i, t.pending) {
                v.push(i);
            }
        }
        v
    }

    fn describe_blocked(&self) -> String {
        let mut s = String::new();
        for (i, t) in self.threads.iter().enumerate() {
            if t.state != ThState::Finished {
                s.push_str(&format!("T{i}({}) waits {:?}; ", t.name, t.pending));
            }
        }
        s
    }

    fn choose(&mut self, me: usize, runnable: &[usize]) -> usize {
        debug_assert!(!runnable.is_empty());
        let me_ok = runnable.contains(&me);
        let canonical = if me_ok { me } else { runnable[0] };
        if runnable.len() == 1 {
            return runnable[0];
        }
        let step = self.out.steps;
        let pick = match self.cfg.policy.clone() {
            Policy::Canonical => canonical,
            Policy::Random { p_permille } => {
                if me_ok && !self.rng.chance(p_permille as u64, 1000) {
                    me
                } else {
                    runnable[self.rng.usize_below(runnable.len())]
                }
            }
            Policy::Pct { .. } => {
                if self.pct_points.contains(&step) && me_ok {
                    self.pct_low = self.pct_low.saturating_sub(1);
                    self.threads[me].prio = self.pct_low;
                }
                let mut best = runnable[0];
                for &t in runnable {
                    if self.threads[t].prio > self.threads[best].prio {
                        best = t;
                    }
                }
                best
            }
            Policy::Starve { victim, from, window } => {
                let n = self.threads.len();
                let v = if n > 1 { 1 + (victim as usize % (n - 1)) } else { 0 };
                let in_window = step >= from && step < from.saturating_add(window);
                let cands: Vec<usize> = if in_window {
                    let c: Vec<usize> = runnable.iter().copied().filter(|&t| t != v).collect();
                    if c.is_empty() {
                        runnable.to_vec()
                    } else {
                        c
                    }
                } else {
                    runnable.to_vec()
                };
                if in_window && cands.len() < runnable.len() {
                    *self.out.probes.entry("starve_victim_skipped").or_insert(0) += 1;
                }
                if cands.contains(&me) && !self.rng.chance(200, 1000) {
                    me
                } else {
                    cands[self.rng.usize_below(cands.len())]
                }
            }
            Policy::Replay => {
                let p = self.replay_pos;
                self.replay_pos += 1;
                match self.cfg.replay.get(p) {
                    Some(&t) if runnable.contains(&(t as usize)) => t as usize,
                    Some(_) => {
                        *self.out.probes.entry("replay_diverged").or_insert(0) += 1;
                        canonical
                    }
                    None => canonical,
                }
            }
        };
        self.out.decisions.push(pick as u16);
        pick
    }

    /// Everybody waits and one thread waits for input that does not come: this is when the signal arrives (the
    /// store its handler performs). Nobody is woken by a store - what follows is the deadlock report.
    fn stop_event_on_stalled_input(&mut self) {
        let stalled = self.threads.iter().any(|t| t.state != ThState::Finished && t.pending == Cond::Never);
        if stalled && self.out.stop_injected_at.is_none() {
            if let Some(f) = &self.stop_flag {
                f.store(true, Ordering::SeqCst);
                self.out.stop_injected_at = Some(self.out.steps);
                crate::io::mark_stop();
                *self.out.probes.entry("stop_event_while_input_stalled").or_insert(0) += 1;
            }
        }
    }

    fn abort(&mut self) {
        self.aborting = true;
        self.out.aborted = true;
        for t in &self.threads {
            t.cv.notify_all();
        }
    }
}

fn trace_mix(h: u64, step: u64, next: usize, op: OpKind, obj: usize) -> u64 {
    mix(&[h, step, next as u64, op as u64, obj as u64])
}

/// The decision point. Declares the calling thread's pending operation (`cond` must hold before it
/// can proceed), lets the policy pick the next thread, and returns when this thread is scheduled
/// with its condition true. Unwinds with `AbortRun` when the run is aborted.
pub(crate) fn decision_point(me: usize, cond: Cond, op: OpKind, obj: usize) {
    let mut guard = lock_rt();
    let rt = match guard.as_mut() {
        Some(rt) if rt.active => rt,
        _ => return,
    };
    if rt.aborting {
        drop(guard);
        abort_unwind();
        return;
    }
    rt.out.steps += 1;
    PROGRESS.fetch_add(1, Ordering::Relaxed);
    let step = rt.out.steps;
    if let Some(s) = rt.cfg.stop_at_step {
        if s == step {
            if let Some(f) = &rt.stop_flag {
                f.store(true, Ordering::SeqCst);
                rt.out.stop_injected_at = Some(step);
                crate::io::mark_stop();
            }
        }
    }
    // the flag raised by the program itself (error cap, fatal, failed output): first step at which it is seen
    if let Some(f) = &rt.stop_flag {
        if f.load(Ordering::SeqCst) {
            crate::io::mark_stop_once();
            if rt.out.backlog_at_stop.is_none() {
                let data = rt.chans.iter().filter(|m| !m.is_flume);
                let worst = data.clone().map(|m| m.len.load(Ordering::SeqCst) as u64).max().unwrap_or(0);
                let bound = data.filter(|m| m.cap != usize::MAX).map(|m| m.cap as u64).max().unwrap_or(0);
                rt.out.backlog_at_stop = Some((worst, bound));
            }
        }
    }
    rt.threads[me].pending = cond;
    rt.threads[me].state = ThState::Ready;
    let late_after_stop = match (rt.out.stop_injected_at, rt.cfg.budget_after_stop) {
        (Some(s), Some(b)) => step > s.saturating_add(b),
        _ => false,
    };
    if step > rt.cfg.step_budget || late_after_stop {
        rt.out.budget_exceeded = true;
        rt.abort();
        drop(guard);
        abort_unwind();
        return;
    }
    // probes on blocking
    match cond {
        Cond::CanSend(_) if !rt.cond_holds(me, cond) => {
            *rt.out.probes.entry("send_blocked_full_queue").or_insert(0) += 1;
        }
        Cond::CanRecv(_) if !rt.cond_holds(me, cond) => {
            *rt.out.probes.entry("recv_blocked_empty_queue").or_insert(0) += 1;
        }
        _ => {}
    }
    let runnable = rt.runnable();
    if runnable.len() > rt.out.max_runnable {
        rt.out.max_runnable = runnable.len();
    }
    if runnable.is_empty() {
        rt.stop_event_on_stalled_input();
        if cond == Cond::AllOthersDone && op == OpKind::Drain {
            rt.out.leaked_threads = rt
                .threads
                .iter()
                .enumerate()
                .filter(|(i, t)| *i != me && t.state != ThState::Finished)
                .map(|(i, t)| format!("T{i}({}) waits {:?}", t.name, t.pending))
                .collect();
        } else {
            rt.out.deadlock = Some(rt.describe_blocked());
        }
        rt.abort();
        drop(guard);
        abort_unwind();
        return;
    }
    let next = rt.choose(me, &runnable);
    rt.out.trace_hash = trace_mix(rt.out.trace_hash, step, next, op, obj);
    rt.current = next;
    rt.threads[next].state = ThState::Running;
    if next != me {
        rt.out.switches += 1;
        let cv_next = rt.threads[next].cv.clone();
        let cv_me = rt.threads[me].cv.clone();
        cv_next.notify_all();
        loop {
            {
                let rt = guard.as_ref().unwrap();
                if rt.aborting || (rt.current == me && rt.threads[me].state == ThState::Running) {
                    break;
                }
            }
            guard = match cv_me.wait(guard) {
                Ok(g) => g,
                Err(p) => p.into_inner(),
            };
        }
        let aborting = guard.as_ref().unwrap().aborting;
        drop(guard);
        if aborting {
            abort_unwind();
        }
    }
}

/// The calling managed thread is inside a system call that never returns (its input has stalled): it gives the
/// baton away for good. Never returns; the OS thread stays parked until the simulated process exits.
static ANY_STALLED: std::sync::atomic::AtomicBool = std::sync::atomic::AtomicBool::new(false);

/// A thread of this process is parked for good inside a stalled read (it still holds std's stdin lock).
pub fn any_thread_stalled() -> bool {
    ANY_STALLED.load(Ordering::SeqCst)
}

pub fn stall_forever() -> ! {
    ANY_STALLED.store(true, Ordering::SeqCst);
    if let Ctx::Managed(me) = ctx() {
        let mut guard = lock_rt();
        if let Some(rt) = guard.as_mut() {
            if rt.active && !rt.aborting {
                rt.out.steps += 1;
                PROGRESS.fetch_add(1, Ordering::Relaxed);
                let step = rt.out.steps;
                *rt.out.probes.entry("input_stalled").or_insert(0) += 1;
                rt.threads[me].pending = Cond::Never;
                rt.threads[me].state = ThState::Ready;
                let runnable = rt.runnable();
                if runnable.is_empty() {
                    rt.stop_event_on_stalled_input();
                    rt.out.deadlock = Some(rt.describe_blocked());
                    rt.abort();
                } else {
                    let next = rt.choose(me, &runnable);
                    rt.out.trace_hash = trace_mix(rt.out.trace_hash, step, next, OpKind::Stall, 0);
                    rt.current = next;
                    rt.threads[next].state = ThState::Running;
                    rt.out.switches += 1;
                    let cv_next = rt.threads[next].cv.clone();
                    cv_next.notify_all();
                }
            }
        }
        drop(guard);
        // this OS thread never ends on its own: it no longer counts among the threads the run waits for
        LIVE_OS_THREADS.fetch_sub(1, Ordering::SeqCst);
    }
    loop {
        std::thread::park();
    }
}

fn abort_unwind() {
    if !std::thread::panicking() {
        // resume_unwind does not invoke the panic hook
        std::panic::resume_unwind(Box::new(AbortRun));
    }
}

/// Register a child thread (called in the parent, which holds the baton): deterministic ids.
pub(crate) fn register_child(name: String) -> Option<(u64, usize)> {
    let mut g = lock_rt();
    let rt = g.as_mut()?;
    if !rt.active || rt.aborting {
        return None;
    }
    let prio = rt.rng.next_u64() | (1 << 63);
    rt.threads.push(Th {
        cv: Arc::new(Condvar::new()),
        state: ThState::Ready,
        name,
        pending: Cond::Always,
        prio,
        std_id: None,
    });
    rt.out.threads = rt.threads.len();
    LIVE_OS_THREADS.fetch_add(1, Ordering::SeqCst);
    Some((rt.gen, rt.threads.len() - 1))
}

pub(crate) fn set_std_id(tid: usize, id: ThreadId) {
    let mut g = lock_rt();
    if let Some(rt) = g.as_mut() {
        if let Some(t) = rt.threads.get_mut(tid) {
            t.std_id = Some(id);
        }
    }
}

pub(crate) fn tid_of_std(id: ThreadId) -> Option<usize> {
    let g = lock_rt();
    g.as_ref()?.threads.iter().position(|t| t.std_id == Some(id))
}

/// First action of a managed child thread: adopt its identity and wait for its first turn.
/// Returns false when the run was aborted before the thread ever ran.
pub(crate) fn child_enter(gen: u64, tid: usize) -> bool {
    CTX.with(|c| c.set((gen, tid)));
    let mut guard = lock_rt();
    loop {
        let rt = match guard.as_ref() {
            Some(rt) if rt.gen == gen => rt,
            _ => return false,
        };
        if rt.aborting || !rt.active {
            return false;
        }
        if rt.current == tid && rt.threads[tid].state == ThState::Running {
            return true;
        }
        let cv = rt.threads[tid].cv.clone();
        guard = match cv.wait(guard) {
            Ok(g) => g,
            Err(p) => p.into_inner(),
        };
    }
}

/// Last scheduling action of a managed thread: mark finished and hand the baton on.
pub(crate) fn child_exit(gen: u64, tid: usize) {
    let mut guard = lock_rt();
    let rt = match guard.as_mut() {
        Some(rt) if rt.gen == gen => rt,
        _ => return,
    };
    rt.threads[tid].state = ThState::Finished;
    if rt.aborting || !rt.active {
        // wake anybody waiting on joins during abort
        for t in &rt.threads {
            t.cv.notify_all();
        }
        return;
    }
    rt.out.steps += 1;
    PROGRESS.fetch_add(1, Ordering::Relaxed);
    let step = rt.out.steps;
    let runnable = rt.runnable();
    if runnable.is_empty() {
        if rt.threads.iter().any(|t| t.state != ThState::Finished) {
            rt.out.deadlock = Some(rt.describe_blocked());
            rt.abort();
        }
        return;
    }
    let next = rt.choose(tid, &runnable);
    rt.out.trace_hash = trace_mix(rt.out.trace_hash, step, next, OpKind::Exit, tid);
    rt.current = next;
    rt.threads[next].state = ThState::Running;
    rt.out.switches += 1;
    rt.threads[next].cv.notify_all();
}

/// Retire a registered child whose OS thread could not be started.
pub(crate) fn retire_child(tid: usize) {
    let mut g = lock_rt();
    if let Some(rt) = g.as_mut() {
        if let Some(t) = rt.threads.get_mut(tid) {
            t.state = ThState::Finished;
        }
    }
    LIVE_OS_THREADS.fetch_sub(1, Ordering::SeqCst);
}

pub(crate) struct OsThreadGuard;
impl Drop for OsThreadGuard {
    fn drop(&mut self) {
        LIVE_OS_THREADS.fetch_sub(1, Ordering::SeqCst);
    }
}

/// Error of the harness itself (not a property violation).
#[derive(Debug)]
pub enum HarnessError {
    ThreadsDidNotTerminate(usize),
}

/// Execute `f` as managed thread T0 of a fresh run. Returns f's value (None if T0 panicked or the
/// run was aborted) and the outcome.
pub fn run<R>(cfg: RunConfig, f: impl FnOnce() -> R) -> Result<(Option<R>, Outcome), HarnessError> {
    let gen = GEN.fetch_add(1, Ordering::SeqCst) + 1;
    {
        let mut g = lock_rt();
        let mut rng = Rng::new(mix(&[cfg.seed, 0x5ced]));
        let mut pct_points = Vec::new();
        if let Policy::Pct { d } = cfg.policy {
            for _ in 0..d {
                pct_points.push(1 + rng.below(cfg.expected_steps.max(2)));
            }
        }
        let t0 = Th {
            cv: Arc::new(Condvar::new()),
            state: ThState::Running,
            name: "main".into(),
            pending: Cond::Always,
            prio: rng.next_u64() | (1 << 63),
            std_id: Some(std::thread::current().id()),
        };
        *g = Some(Rt {
            active: true,
            aborting: false,
            gen,
            cfg,
            threads: vec![t0],
            chans: Vec::new(),
            current: 0,
            rng,
            replay_pos: 0,
            pct_points,
            pct_low: 1 << 62,
            stop_flag: None,
            out: Outcome { threads: 1, ..Default::default() },
        });
    }
    let prev_ctx = my_ctx();
    CTX.with(|c| c.set((gen, 0)));
    RUN_ACTIVE.store(true, Ordering::SeqCst);

    let result = std::panic::catch_unwind(std::panic::AssertUnwindSafe(|| {
        let r = f();
        // The program's main function has returned: in a real process every other thread dies here. Which ones
        // had not finished (and not been joined) is recorded; then they are left to finish on their own (drain).
        {
            let mut g = lock_rt();
            if let Some(rt) = g.as_mut() {
                if rt.active && !rt.aborting {
                    rt.out.alive_at_main_return = rt
                        .threads
                        .iter()
                        .enumerate()
                        .skip(1)
                        .filter(|(_, t)| t.state != ThState::Finished)
                        .map(|(i, t)| format!("T{i}({})", t.name))
                        .collect();
                }
            }
        }
        decision_point(0, Cond::AllOthersDone, OpKind::Drain, 0);
        r
    }));
    let value = result.ok();

    // End of run: release everything that is still parked, wait for the OS threads to go away.
    {
        let mut g = lock_rt();
        if let Some(rt) = g.as_mut() {
            if rt.threads.iter().skip(1).any(|t| t.state != ThState::Finished) {
                rt.abort();
            }
        }
    }
    crate::io::stop_clock_fault();
    let deadline = Instant::now() + Duration::from_secs(20);
    while LIVE_OS_THREADS.load(Ordering::SeqCst) != 0 {
        if Instant::now() > deadline {
            RUN_ACTIVE.store(false, Ordering::SeqCst);
            return Err(HarnessError::ThreadsDidNotTerminate(
                LIVE_OS_THREADS.load(Ordering::SeqCst),
            ));
        }
        std::thread::sleep(Duration::from_micros(50));
    }
    RUN_ACTIVE.store(false, Ordering::SeqCst);
    CTX.with(|c| c.set(prev_ctx));
    let mut g = lock_rt();
    let mut rt = g.take().unwrap();
    rt.active = false;
    // collector arrival order: first flume channel created in the run
    if let Some(m) = rt.chans.iter().find(|m| m.is_flume) {
        rt.out.arrival_hash = m.arrival_hash.load(Ordering::SeqCst);
        rt.out.arrival_msgs = m.sends.load(Ordering::SeqCst);
    }
    rt.out.thread_names = rt.threads.iter().map(|t| t.name.clone()).collect();
    Ok((value, rt.out))
}

/// Explicit yield (a decision point with no condition); usable by harness code.
pub fn yield_now() {
    if let Ctx::Managed(me) = ctx() {
        decision_point(me, Cond::Always, OpKind::Yield, 0);
    }
}
