//! Generic MPMC FIFO channel whose blocking is understood by the scheduler. The shim crates
//! `crossbeam-channel` and `flume` are thin wrappers around this.
//!
//! Semantics (those documented for both crates): FIFO per channel; `send` blocks while a bounded
//! channel is full; `send` fails when every receiver is gone; `recv` fails when every sender is gone
//! *and* the queue is empty; dropping the last endpoint wakes blocked peers.

use crate::rng::mix;
use crate::sched::{self, ChanMeta, Cond, Ctx, OpKind};
use std::collections::VecDeque;
use std::sync::atomic::{AtomicU64, AtomicUsize, Ordering};
use std::sync::{Arc, Mutex};
use std::time::Duration;

struct Shared<T> {
    q: Mutex<VecDeque<T>>,
    meta: Arc<ChanMeta>,
    gen: u64,
    id: usize,
}

impl<T> Shared<T> {
    fn lock(&self) -> std::sync::MutexGuard<'_, VecDeque<T>> {
        match self.q.lock() {
            Ok(g) => g,
            Err(p) => p.into_inner(),
        }
    }
    /// Is this channel known to the scheduler of the *current* run?
    fn managed_id(&self) -> Option<usize> {
        if self.gen != 0 && self.id != usize::MAX {
            Some(self.id)
        } else {
            None
        }
    }
}

pub struct Tx<T> {
    sh: Arc<Shared<T>>,
}
pub struct Rx<T> {
    sh: Arc<Shared<T>>,
}

#[derive(Debug, PartialEq, Eq, Clone, Copy)]
pub enum TryRecvErr {
    Empty,
    Disconnected,
}

pub enum TrySendErr<T> {
    Full(T),
    Disconnected(T),
}

/// `cap = None` is unbounded. A bounded capacity of 0 (rendezvous) is not modelled and is treated
/// as capacity 1.
pub fn channel<T>(cap: Option<usize>, is_flume: bool) -> (Tx<T>, Rx<T>) {
    let mut cap = match cap {
        None => usize::MAX,
        Some(0) => 1,
        Some(c) => c,
    };
    if cap != usize::MAX && !is_flume {
        // crossbeam's bounded channel allocates every slot when it is created: the request itself is an
        // allocation whose size the program chose (recorded before the capacity-cap fault shrinks it)
        sched::note_capacity_request(cap);
    }
    if cap != usize::MAX {
        if let Some(limit) = sched::cap_limit() {
            cap = cap.min(limit.max(1));
        }
    }
    let meta = Arc::new(ChanMeta {
        len: AtomicUsize::new(0),
        cap,
        senders: AtomicUsize::new(1),
        receivers: AtomicUsize::new(1),
        arrival_hash: AtomicU64::new(0),
        sends: AtomicU64::new(0),
        is_flume,
    });
    let (gen, id) = sched::register_chan(&meta);
    let sh = Arc::new(Shared { q: Mutex::new(VecDeque::new()), meta, gen, id });
    (Tx { sh: sh.clone() }, Rx { sh })
}

fn same_run(gen: u64) -> bool {
    sched::my_ctx().0 == gen
}

impl<T> Tx<T> {
    fn push(&self, v: T) {
        let mut q = self.sh.lock();
        q.push_back(v);
        self.sh.meta.len.store(q.len(), Ordering::SeqCst);
        let tid = sched::current_tid().map(|t| t as u64).unwrap_or(u64::MAX);
        let h = self.sh.meta.arrival_hash.load(Ordering::SeqCst);
        self.sh.meta.arrival_hash.store(mix(&[h, tid]), Ordering::SeqCst);
        self.sh.meta.sends.fetch_add(1, Ordering::SeqCst);
    }

    pub fn send(&self, v: T) -> Result<(), T> {
        let meta = &self.sh.meta;
        match (sched::ctx(), self.sh.managed_id()) {
            (Ctx::Managed(me), Some(id)) if same_run(self.sh.gen) => {
                sched::decision_point(me, Cond::CanSend(id), OpKind::Send, id);
                if meta.receivers.load(Ordering::SeqCst) == 0 {
                    return Err(v);
                }
                self.push(v);
                Ok(())
            }
            (Ctx::Free, _) => {
                // run is being aborted / thread is unwinding: never block, never fail
                if meta.receivers.load(Ordering::SeqCst) != 0 {
                    self.push(v);
                }
                Ok(())
            }
            _ => {
                sched::note_unmanaged_op();
                loop {
                    if meta.receivers.load(Ordering::SeqCst) == 0 {
                        return Err(v);
                    }
                    if meta.len.load(Ordering::SeqCst) < meta.cap {
                        self.push(v);
                        return Ok(());
                    }
                    std::thread::sleep(Duration::from_micros(200));
                }
            }
        }
    }

    pub fn try_send(&self, v: T) -> Result<(), TrySendErr<T>> {
        let meta = &self.sh.meta;
        if let (Ctx::Managed(me), Some(id)) = (sched::ctx(), self.sh.managed_id()) {
            if same_run(self.sh.gen) {
                sched::decision_point(me, Cond::Always, OpKind::TrySend, id);
            }
        }
        if meta.receivers.load(Ordering::SeqCst) == 0 {
            return Err(TrySendErr::Disconnected(v));
        }
        if meta.len.load(Ordering::SeqCst) >= meta.cap {
            return Err(TrySendErr::Full(v));
        }
        self.push(v);
        Ok(())
    }

    pub fn len(&self) -> usize {
        self.sh.meta.len.load(Ordering::SeqCst)
    }
    pub fn is_empty(&self) -> bool {
        self.len() == 0
    }
    pub fn is_full(&self) -> bool {
        self.len() >= self.sh.meta.cap
    }
    pub fn capacity(&self) -> Option<usize> {
        if self.sh.meta.cap == usize::MAX {
            None
        } else {
            Some(self.sh.meta.cap)
        }
    }
    pub fn is_disconnected(&self) -> bool {
        self.sh.meta.receivers.load(Ordering::SeqCst) == 0
    }
    pub fn same_channel(&self, other: &Tx<T>) -> bool {
        Arc::ptr_eq(&self.sh, &other.sh)
    }
}

impl<T> Rx<T> {
    fn pop(&self) -> Option<T> {
        let mut q = self.sh.lock();
        let v = q.pop_front();
        self.sh.meta.len.store(q.len(), Ordering::SeqCst);
        v
    }

    pub fn recv(&self) -> Result<T, ()> {
        let meta = &self.sh.meta;
        match (sched::ctx(), self.sh.managed_id()) {
            (Ctx::Managed(me), Some(id)) if same_run(self.sh.gen) => {
                sched::decision_point(me, Cond::CanRecv(id), OpKind::Recv, id);
                match self.pop() {
                    Some(v) => Ok(v),
                    None => {
                        sched::probe("recv_ended_by_disconnect");
                        Err(())
                    }
                }
            }
            (Ctx::Free, _) => self.pop().ok_or(()),
            _ => {
                sched::note_unmanaged_op();
                loop {
                    if let Some(v) = self.pop() {
                        return Ok(v);
                    }
                    if meta.senders.load(Ordering::SeqCst) == 0 {
                        // re-check after observing disconnect
                        return self.pop().ok_or(());
                    }
                    std::thread::sleep(Duration::from_micros(200));
                }
            }
        }
    }

    pub fn try_recv(&self) -> Result<T, TryRecvErr> {
        if let (Ctx::Managed(me), Some(id)) = (sched::ctx(), self.sh.managed_id()) {
            if same_run(self.sh.gen) {
                sched::decision_point(me, Cond::Always, OpKind::TryRecv, id);
            }
        }
        match self.pop() {
            Some(v) => Ok(v),
            None => {
                if self.sh.meta.senders.load(Ordering::SeqCst) == 0 {
                    Err(TryRecvErr::Disconnected)
                } else {
                    Err(TryRecvErr::Empty)
                }
            }
        }
    }

    pub fn len(&self) -> usize {
        self.sh.meta.len.load(Ordering::SeqCst)
    }
    pub fn is_empty(&self) -> bool {
        self.len() == 0
    }
    pub fn is_full(&self) -> bool {
        self.len() >= self.sh.meta.cap
    }
    pub fn capacity(&self) -> Option<usize> {
        if self.sh.meta.cap == usize::MAX {
            None
        } else {
            Some(self.sh.meta.cap)
        }
    }
    pub fn is_disconnected(&self) -> bool {
        self.sh.meta.senders.load(Ordering::SeqCst) == 0
    }
    pub fn same_channel(&self, other: &Rx<T>) -> bool {
        Arc::ptr_eq(&self.sh, &other.sh)
    }
}

impl<T> Clone for Tx<T> {
    fn clone(&self) -> Self {
        self.sh.meta.senders.fetch_add(1, Ordering::SeqCst);
        Tx { sh: self.sh.clone() }
    }
}
impl<T> Clone for Rx<T> {
    fn clone(&self) -> Self {
        self.sh.meta.receivers.fetch_add(1, Ordering::SeqCst);
        Rx { sh: self.sh.clone() }
    }
}
impl<T> Drop for Tx<T> {
    fn drop(&mut self) {
        self.sh.meta.senders.fetch_sub(1, Ordering::SeqCst);
    }
}
impl<T> Drop for Rx<T> {
    fn drop(&mut self) {
        self.sh.meta.receivers.fetch_sub(1, Ordering::SeqCst);
    }
}
