//! I/O seam state. The harness executable defines the libc symbols `read`/`write`/... and
//! forwards each call of a *managed* thread to `on_read` / `on_write` here, which consult the
//! run's I/O plan: input served from memory (pipe personality) or from the real file with a fault
//! plan (file personality); fd 1 and fd 2 captured into per-run buffers with a fault plan for fd 1.
//!
//! These functions are called underneath std's stdin/stdout/stderr locks, so they never schedule.

use crate::rng::Rng;
use std::sync::Mutex;

#[derive(Clone, Debug, Default)]
pub struct IoPlan {
    /// Pipe personality: reads on fd 0 are served from this buffer.
    pub stdin_data: Option<Vec<u8>>,
    /// Pipe personality: the buffer is delivered this many times in a row (0 and 1: once). Streams of
    /// several GiB without holding them in memory.
    pub stdin_repeat: u64,
    /// File personality: (st_dev, st_ino) of the input file; reads on a descriptor referring to it
    /// are subject to the read plan.
    pub input_file: Option<(u64, u64)>,
    /// Benign: seeded short reads on the input. Each read returns 1..=min(count, max_chunk) bytes.
    pub short_reads: Option<(u64, usize)>,
    /// Benign: every n-th input read fails with EINTR first (std retries).
    pub eintr_every: Option<u32>,
    /// Disruptive: input read fails with EIO once the cumulative input position reaches this byte.
    pub eio_at: Option<u64>,
    /// Disruptive: input ends (EOF) at this byte (pipe personality; for files the file is cut).
    pub eof_at: Option<u64>,
    /// Disruptive: writes to fd 1 fail with `stdout_errno` once this many bytes were accepted.
    pub stdout_fail_at: Option<u64>,
    pub stdout_errno: i32,
    /// Benign: seeded short writes on fd 1 (each write accepts 1..=min(count, max)).
    pub stdout_short_writes: Option<(u64, usize)>,
    /// Benign: every n-th write to fd 1 fails with EINTR first.
    pub stdout_eintr_every: Option<u32>,
    /// Benign: the monotonic clock jumps forward (a stalled machine, a suspended process): seed; on
    /// average every 40th reading of the clock by a managed thread adds 0.3 .. 3.3 s.
    pub clock_jumps: Option<u64>,
    /// The stop event (the store the signal handler performs) happens when this many input bytes have been
    /// delivered through the pipe seam - also while a thread computes between two decision points.
    pub stop_at_input_byte: Option<u64>,
    /// Seed of the bytes `getrandom` returns inside the run (None: the real system call).
    pub entropy_seed: Option<u64>,
    /// Disruptive: the pipe's writer stalls after this many bytes: the read that would go beyond does not
    /// return (the pipe stays open, no end of input).
    pub stall_at: Option<u64>,
}

#[derive(Debug, Default, Clone)]
pub struct IoCounters {
    pub input_reads: u64,
    pub input_bytes: u64,
    pub short_reads: u64,
    pub read_eintr: u64,
    pub read_eio: u64,
    pub read_eof_injected: u64,
    pub stdout_writes: u64,
    pub stdout_short_writes: u64,
    pub stdout_eintr: u64,
    pub stdout_failed_writes: u64,
    pub stderr_writes: u64,
    /// Failed writes to stdout by the thread whose write failed first (the producer of the output).
    pub stdout_failed_writes_first_thread: u64,
    pub first_failing_tid: Option<usize>,
}

#[derive(Default)]
pub struct IoState {
    pub active: bool,
    pub plan: IoPlan,
    pub stdin_pos: usize,
    pub file_pos_estimate: u64,
    pub stdout: Vec<u8>,
    pub stderr: Vec<u8>,
    pub stdout_accepted: u64,
    discard: bool,
    rd_rng: Option<Rng>,
    wr_rng: Option<Rng>,
    rd_calls: u32,
    wr_calls: u32,
    pub counters: IoCounters,
}

static IO: Mutex<Option<IoState>> = Mutex::new(None);

/// Input bytes handed to the program so far / at the moment the stop event was injected (lock-free:
/// the scheduler marks the stop while holding its own lock).
static INPUT_TOTAL: std::sync::atomic::AtomicU64 = std::sync::atomic::AtomicU64::new(0);
static INPUT_AT_STOP: std::sync::atomic::AtomicU64 = std::sync::atomic::AtomicU64::new(u64::MAX);

/// Accumulated forward skew of the monotonic clock (ns), state of its generator, number of jumps.
static CLOCK_SKEW_NS: std::sync::atomic::AtomicU64 = std::sync::atomic::AtomicU64::new(0);
static CLOCK_RNG: std::sync::atomic::AtomicU64 = std::sync::atomic::AtomicU64::new(0);
static CLOCK_JUMPS: std::sync::atomic::AtomicU64 = std::sync::atomic::AtomicU64::new(0);

/// Skew to add to a reading of the monotonic clock by a managed thread (0 when the fault is off).
/// Lock-free; managed threads run one at a time, so the sequence of readings is deterministic.
pub fn clock_skew_ns() -> u64 {
    use std::sync::atomic::Ordering::SeqCst;
    let mut x = CLOCK_RNG.load(SeqCst);
    if x == 0 {
        return 0;
    }
    // xorshift64
    x ^= x << 13;
    x ^= x >> 7;
    x ^= x << 17;
    CLOCK_RNG.store(x, SeqCst);
    if x % 40 == 0 {
        let jump = 300_000_000 + (x >> 8) % 3_000_000_000;
        CLOCK_SKEW_NS.fetch_add(jump, SeqCst);
        CLOCK_JUMPS.fetch_add(1, SeqCst);
    }
    CLOCK_SKEW_NS.load(SeqCst)
}

/// Switch the clock fault off (end of run: the runtime's own deadlines must see real time).
pub fn stop_clock_fault() {
    CLOCK_RNG.store(0, std::sync::atomic::Ordering::SeqCst);
}

pub fn clock_jumps_fired() -> u64 {
    CLOCK_JUMPS.load(std::sync::atomic::Ordering::SeqCst)
}

static ENTROPY_SEED: std::sync::atomic::AtomicU64 = std::sync::atomic::AtomicU64::new(0);
static ENTROPY_CALLS: std::sync::atomic::AtomicU64 = std::sync::atomic::AtomicU64::new(0);

/// Next seed for a `getrandom` call inside the run (None: entropy is not seeded in this run).
pub fn entropy_next() -> Option<u64> {
    use std::sync::atomic::Ordering::SeqCst;
    let s = ENTROPY_SEED.load(SeqCst);
    if s == 0 {
        return None;
    }
    let n = ENTROPY_CALLS.fetch_add(1, SeqCst) + 1;
    Some(crate::rng::mix(&[s, n]) | 1)
}

pub fn entropy_calls() -> u64 {
    ENTROPY_CALLS.load(std::sync::atomic::Ordering::SeqCst)
}

/// Called by the scheduler at the step that performs the signal handler's store.
pub fn mark_stop() {
    use std::sync::atomic::Ordering::SeqCst;
    INPUT_AT_STOP.store(INPUT_TOTAL.load(SeqCst), SeqCst);
}

/// The stop flag was seen set (by whoever): mark the instant unless it is marked already.
pub fn mark_stop_once() {
    use std::sync::atomic::Ordering::SeqCst;
    let _ = INPUT_AT_STOP.compare_exchange(u64::MAX, INPUT_TOTAL.load(SeqCst), SeqCst, SeqCst);
}

/// Input bytes read after the stop event (None: no stop event in this run).
pub fn input_bytes_after_stop() -> Option<u64> {
    use std::sync::atomic::Ordering::SeqCst;
    let m = INPUT_AT_STOP.load(SeqCst);
    if m == u64::MAX {
        None
    } else {
        Some(INPUT_TOTAL.load(SeqCst).saturating_sub(m))
    }
}

fn lock_io() -> std::sync::MutexGuard<'static, Option<IoState>> {
    match IO.lock() {
        Ok(g) => g,
        Err(p) => p.into_inner(),
    }
}

pub fn begin(plan: IoPlan) {
    ENTROPY_CALLS.store(0, std::sync::atomic::Ordering::SeqCst);
    ENTROPY_SEED.store(plan.entropy_seed.map(|s| s | 1).unwrap_or(0), std::sync::atomic::Ordering::SeqCst);
    CLOCK_SKEW_NS.store(0, std::sync::atomic::Ordering::SeqCst);
    CLOCK_JUMPS.store(0, std::sync::atomic::Ordering::SeqCst);
    CLOCK_RNG.store(plan.clock_jumps.map(|s| s | 1).unwrap_or(0), std::sync::atomic::Ordering::SeqCst);
    INPUT_TOTAL.store(0, std::sync::atomic::Ordering::SeqCst);
    INPUT_AT_STOP.store(u64::MAX, std::sync::atomic::Ordering::SeqCst);
    let mut g = lock_io();
    let rd_rng = plan.short_reads.map(|(s, _)| Rng::new(s));
    let wr_rng = plan.stdout_short_writes.map(|(s, _)| Rng::new(s));
    *g = Some(IoState {
        active: true,
        plan,
        rd_rng,
        wr_rng,
        stdout: Vec::with_capacity(4096),
        stderr: Vec::with_capacity(1024),
        ..Default::default()
    });
}

/// Switch to "drain" mode: input reads answer EOF, output still captured (used to empty std's
/// process-global stdin buffer between runs).
pub fn set_drain() {
    let mut g = lock_io();
    if let Some(st) = g.as_mut() {
        st.plan.stdin_data = Some(Vec::new());
        st.plan.eof_at = Some(0);
        st.plan.eio_at = None;
        st.plan.eintr_every = None;
    }
}

/// Identity of the plan's input file, if the run uses the file personality.
pub fn input_file_id() -> Option<(u64, u64)> {
    let g = lock_io();
    g.as_ref().and_then(|st| if st.active { st.plan.input_file } else { None })
}

/// From now on accept and discard everything written to fd 1 / fd 2 (used to empty std's
/// process-global stdout buffer after the captured part of the run is over).
pub fn set_discard() {
    let mut g = lock_io();
    if let Some(st) = g.as_mut() {
        st.discard = true;
    }
}

pub fn end() -> Option<IoState> {
    let mut g = lock_io();
    let mut st = g.take();
    if let Some(s) = st.as_mut() {
        s.active = false;
    }
    st
}

pub enum ReadAction {
    /// Not ours: forward unchanged.
    Pass,
    /// Forward to the real descriptor but ask for at most this many bytes.
    PassLimited(usize),
    /// Completed in memory: n bytes were copied into the caller's buffer.
    Done(usize),
    /// Fail with this errno.
    Fail(i32),
    /// The read does not return: the input has stalled.
    Stall,
}

pub const EINTR: i32 = 4;
pub const EIO: i32 = 5;
pub const EPIPE: i32 = 32;
pub const ENOSPC: i32 = 28;

/// `is_input_file`: the interposer determined (fstat) that fd refers to the plan's input file.
/// `file_pos`: current offset of that descriptor (lseek SEEK_CUR), if known.
pub fn on_read(fd: i32, buf: &mut [u8], is_input_file: bool, file_pos: Option<u64>) -> ReadAction {
    let mut g = lock_io();
    let st = match g.as_mut() {
        Some(st) if st.active => st,
        _ => return ReadAction::Pass,
    };
    let count = buf.len();
    if fd == 0 && st.plan.stdin_data.is_some() {
        st.counters.input_reads += 1;
        st.rd_calls += 1;
        if let Some(n) = st.plan.eintr_every {
            if n > 0 && st.rd_calls % n == 0 {
                st.counters.read_eintr += 1;
                return ReadAction::Fail(EINTR);
            }
        }
        let pos = st.stdin_pos;
        if let Some(e) = st.plan.eio_at {
            if pos as u64 >= e {
                st.counters.read_eio += 1;
                return ReadAction::Fail(EIO);
            }
        }
        let one_len = st.plan.stdin_data.as_ref().unwrap().len();
        let data_len = one_len.saturating_mul(st.plan.stdin_repeat.max(1) as usize);
        let mut end = data_len;
        if let Some(e) = st.plan.eof_at {
            if (e as usize) < end {
                end = e as usize;
                if pos >= end {
                    st.counters.read_eof_injected += 1;
                }
            }
        }
        if let Some(e) = st.plan.eio_at {
            // deliver bytes up to the fault position first
            if (e as usize) < end {
                end = e as usize;
            }
        }
        if let Some(k) = st.plan.stall_at {
            // bytes up to the stall position are delivered; the next read never returns (never on the main thread,
            // which only reads the first bytes of the input: the run itself lives on it)
            if (k as usize) < end {
                end = k as usize;
                if pos >= end && crate::sched::current_tid().map_or(false, |t| t != 0) {
                    return ReadAction::Stall;
                }
            }
        }
        let avail = end.saturating_sub(pos);
        let mut n = count.min(avail);
        if n > 1 {
            if let (Some((_, max)), Some(rng)) = (st.plan.short_reads, st.rd_rng.as_mut()) {
                let lim = n.min(max.max(1));
                let k = 1 + rng.usize_below(lim);
                if k < n {
                    st.counters.short_reads += 1;
                }
                n = k;
            }
        }
        if n > 0 {
            let data = st.plan.stdin_data.as_ref().unwrap();
            if st.plan.stdin_repeat <= 1 {
                buf[..n].copy_from_slice(&data[pos..pos + n]);
            } else {
                let mut done = 0;
                while done < n {
                    let at = (pos + done) % one_len;
                    let k = (n - done).min(one_len - at);
                    buf[done..done + k].copy_from_slice(&data[at..at + k]);
                    done += k;
                }
            }
        }
        st.stdin_pos += n;
        st.counters.input_bytes += n as u64;
        let before = INPUT_TOTAL.fetch_add(n as u64, std::sync::atomic::Ordering::SeqCst);
        if let Some(k) = st.plan.stop_at_input_byte {
            if before < k && before + n as u64 >= k {
                crate::sched::inject_stop_now();
            }
        }
        return ReadAction::Done(n);
    }
    if is_input_file {
        st.counters.input_reads += 1;
        st.rd_calls += 1;
        if let Some(n) = st.plan.eintr_every {
            if n > 0 && st.rd_calls % n == 0 {
                st.counters.read_eintr += 1;
                return ReadAction::Fail(EINTR);
            }
        }
        let mut limit = count;
        if let (Some(e), Some(p)) = (st.plan.eio_at, file_pos) {
            if p >= e {
                st.counters.read_eio += 1;
                return ReadAction::Fail(EIO);
            }
            limit = limit.min((e - p) as usize);
        }
        if limit > 1 {
            if let (Some((_, max)), Some(rng)) = (st.plan.short_reads, st.rd_rng.as_mut()) {
                let lim = limit.min(max.max(1));
                let k = 1 + rng.usize_below(lim);
                if k < limit {
                    st.counters.short_reads += 1;
                }
                limit = k;
            }
        }
        return ReadAction::PassLimited(limit);
    }
    ReadAction::Pass
}

pub fn note_file_read(n: usize) {
    let mut g = lock_io();
    if let Some(st) = g.as_mut() {
        st.counters.input_bytes += n as u64;
        let before = INPUT_TOTAL.fetch_add(n as u64, std::sync::atomic::Ordering::SeqCst);
        if let Some(k) = st.plan.stop_at_input_byte {
            if before < k && before + n as u64 >= k {
                crate::sched::inject_stop_now();
            }
        }
    }
}

pub enum WriteAction {
    Pass,
    Done(usize),
    Fail(i32),
}

pub fn on_write(fd: i32, data: &[u8]) -> WriteAction {
    if fd != 1 && fd != 2 {
        return WriteAction::Pass;
    }
    let mut g = lock_io();
    let st = match g.as_mut() {
        Some(st) if st.active => st,
        _ => return WriteAction::Pass,
    };
    if st.discard {
        return WriteAction::Done(data.len());
    }
    if fd == 2 {
        st.counters.stderr_writes += 1;
        st.stderr.extend_from_slice(data);
        return WriteAction::Done(data.len());
    }
    st.counters.stdout_writes += 1;
    st.wr_calls += 1;
    if let Some(n) = st.plan.stdout_eintr_every {
        if n > 0 && st.wr_calls % n == 0 {
            st.counters.stdout_eintr += 1;
            return WriteAction::Fail(EINTR);
        }
    }
    let mut n = data.len();
    if let Some(limit) = st.plan.stdout_fail_at {
        let room = limit.saturating_sub(st.stdout_accepted) as usize;
        if room == 0 && n > 0 {
            st.counters.stdout_failed_writes += 1;
            let tid = crate::sched::current_tid();
            if st.counters.first_failing_tid.is_none() {
                st.counters.first_failing_tid = tid;
            }
            if tid.is_some() && tid == st.counters.first_failing_tid {
                st.counters.stdout_failed_writes_first_thread += 1;
            }
            let e = if st.plan.stdout_errno != 0 { st.plan.stdout_errno } else { EPIPE };
            return WriteAction::Fail(e);
        }
        n = n.min(room);
    }
    if n > 1 {
        if let (Some((_, max)), Some(rng)) = (st.plan.stdout_short_writes, st.wr_rng.as_mut()) {
            let lim = n.min(max.max(1));
            let k = 1 + rng.usize_below(lim);
            if k < n {
                st.counters.stdout_short_writes += 1;
            }
            n = k;
        }
    }
    st.stdout.extend_from_slice(&data[..n]);
    st.stdout_accepted += n as u64;
    WriteAction::Done(n)
}

/// Fast check used by the interposers before doing any work.
pub fn is_active() -> bool {
    crate::sched::is_managed_thread()
}
