//! Thread seam: a `Builder` with the signature of `std::thread::Builder` whose children are
//! registered with the scheduler synchronously in the parent (deterministic thread ids), start by
//! waiting for their turn, and end with a scheduling event. Returns std's `JoinHandle`.

use crate::sched::{self, Cond, Ctx, OpKind};
use std::io;
use std::panic::{catch_unwind, resume_unwind, AssertUnwindSafe};

pub use std::thread::{current, park, sleep, yield_now, JoinHandle, Thread, ThreadId};

#[derive(Debug)]
pub struct Builder {
    name: Option<String>,
    stack_size: Option<usize>,
}

impl Default for Builder {
    fn default() -> Self {
        Self::new()
    }
}

impl Builder {
    pub fn new() -> Builder {
        Builder { name: None, stack_size: None }
    }

    pub fn name(mut self, name: String) -> Builder {
        self.name = Some(name);
        self
    }

    pub fn stack_size(mut self, size: usize) -> Builder {
        self.stack_size = Some(size);
        self
    }

    fn std_builder(&self) -> std::thread::Builder {
        let mut b = std::thread::Builder::new();
        if let Some(n) = &self.name {
            b = b.name(n.clone());
        }
        if let Some(s) = self.stack_size {
            b = b.stack_size(s);
        }
        b
    }

    pub fn spawn<F, T>(self, f: F) -> io::Result<JoinHandle<T>>
    where
        F: FnOnce() -> T,
        F: Send + 'static,
        T: Send + 'static,
    {
        let me = match sched::ctx() {
            Ctx::Managed(me) => me,
            _ => return self.std_builder().spawn(f),
        };
        let name = self.name.clone().unwrap_or_else(|| "<unnamed>".to_string());
        let (gen, tid) = match sched::register_child(name) {
            Some(x) => x,
            None => return self.std_builder().spawn(f),
        };
        let handle = self.std_builder().spawn(move || {
            let _os_guard = sched::OsThreadGuard;
            if !sched::child_enter(gen, tid) {
                // Run aborted before this thread ever ran: drop the closure (and what it owns)
                // and leave through an unwinding that the joiner sees as a panic of this thread.
                drop(f);
                sched::child_exit(gen, tid);
                std::panic::resume_unwind(Box::new(sched::AbortRun));
            }
            let r = catch_unwind(AssertUnwindSafe(f));
            sched::child_exit(gen, tid);
            match r {
                Ok(v) => v,
                Err(p) => resume_unwind(p),
            }
        });
        match handle {
            Ok(h) => {
                sched::set_std_id(tid, h.thread().id());
                sched::decision_point(me, Cond::Always, OpKind::Spawn, tid);
                Ok(h)
            }
            Err(e) => {
                // could not start the OS thread: retire the registration
                sched::retire_child(tid);
                Err(e)
            }
        }
    }
}

/// `std::thread::spawn` counterpart.
pub fn spawn<F, T>(f: F) -> JoinHandle<T>
where
    F: FnOnce() -> T,
    F: Send + 'static,
    T: Send + 'static,
{
    Builder::new().spawn(f).expect("failed to spawn thread")
}

/// Simulated blocking wait for the end of the thread behind `handle`; afterwards the real `join()`
/// returns (almost) immediately. No-op outside a managed run.
pub fn before_join<T>(handle: &JoinHandle<T>) {
    if let Ctx::Managed(me) = sched::ctx() {
        if let Some(tid) = sched::tid_of_std(handle.thread().id()) {
            sched::decision_point(me, Cond::Joinable(tid), OpKind::Join, tid);
        }
    }
}
