//! fpsim-rt: runtime of the deterministic simulator for fastPASTA (see /verif/DESIGN.md §2).
pub mod chan;
pub mod io;
pub mod rng;
pub mod sched;
pub mod thread;

pub use sched::{run, Outcome, Policy, RunConfig};
