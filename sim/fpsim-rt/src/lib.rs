//! fpsim-rt: runtime of the deterministic simulator for fastPASTA (see /verif/DESIGN.md §2).
pub mod chan;
pub mod io;
pub mod rng;
pub mod sched;
pub mod thread;

pub use sched::{run, Outcome, Policy, RunConfig};

// ------------------------------------------------------------------------------------------------
// process arguments seam (guarded hook in fastpasta::config::init_config)
// ------------------------------------------------------------------------------------------------
static PROCESS_ARGS: std::sync::Mutex<Vec<String>> = std::sync::Mutex::new(Vec::new());

/// The command line of the simulated process (program name first).
pub fn set_process_args(args: Vec<String>) {
    *PROCESS_ARGS.lock().unwrap_or_else(|p| p.into_inner()) = args;
}

pub fn process_args() -> Vec<String> {
    PROCESS_ARGS.lock().unwrap_or_else(|p| p.into_inner()).clone()
}
