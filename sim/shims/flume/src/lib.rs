//! Shim of the `flume` API subset fastPASTA uses (plus a margin so that plausible edits still
//! compile), implemented on `fpsim_rt::chan` so that the simulator's scheduler owns blocking.
use fpsim_rt::chan::{self, Rx, TryRecvErr, TrySendErr, Tx};
use std::fmt;
use std::time::{Duration, Instant};

pub struct Sender<T>(Tx<T>);
pub struct Receiver<T>(Rx<T>);

#[derive(Copy, Clone, PartialEq, Eq)]
pub struct SendError<T>(pub T);
impl<T> SendError<T> {
    pub fn into_inner(self) -> T {
        self.0
    }
}
impl<T> fmt::Debug for SendError<T> {
    fn fmt(&self, f: &mut fmt::Formatter<'_>) -> fmt::Result {
        "SendError(..)".fmt(f)
    }
}
impl<T> fmt::Display for SendError<T> {
    fn fmt(&self, f: &mut fmt::Formatter<'_>) -> fmt::Result {
        "sending on a closed channel".fmt(f)
    }
}
impl<T> std::error::Error for SendError<T> {}

#[derive(Copy, Clone, Debug, PartialEq, Eq)]
pub enum RecvError {
    Disconnected,
}
impl fmt::Display for RecvError {
    fn fmt(&self, f: &mut fmt::Formatter<'_>) -> fmt::Result {
        "receiving on a closed channel".fmt(f)
    }
}
impl std::error::Error for RecvError {}

#[derive(Copy, Clone, Debug, PartialEq, Eq)]
pub enum TryRecvError {
    Empty,
    Disconnected,
}
impl fmt::Display for TryRecvError {
    fn fmt(&self, f: &mut fmt::Formatter<'_>) -> fmt::Result {
        match self {
            TryRecvError::Empty => "receiving on an empty channel".fmt(f),
            TryRecvError::Disconnected => "channel is empty and closed".fmt(f),
        }
    }
}
impl std::error::Error for TryRecvError {}

#[derive(Copy, Clone, PartialEq, Eq)]
pub enum TrySendError<T> {
    Full(T),
    Disconnected(T),
}
impl<T> TrySendError<T> {
    pub fn into_inner(self) -> T {
        match self {
            TrySendError::Full(v) | TrySendError::Disconnected(v) => v,
        }
    }
}
impl<T> fmt::Debug for TrySendError<T> {
    fn fmt(&self, f: &mut fmt::Formatter<'_>) -> fmt::Result {
        match self {
            TrySendError::Full(..) => "Full(..)".fmt(f),
            TrySendError::Disconnected(..) => "Disconnected(..)".fmt(f),
        }
    }
}
impl<T> fmt::Display for TrySendError<T> {
    fn fmt(&self, f: &mut fmt::Formatter<'_>) -> fmt::Result {
        match self {
            TrySendError::Full(..) => "sending on a full channel".fmt(f),
            TrySendError::Disconnected(..) => "sending on a closed channel".fmt(f),
        }
    }
}
impl<T> std::error::Error for TrySendError<T> {}

#[derive(Copy, Clone, Debug, PartialEq, Eq)]
pub enum RecvTimeoutError {
    Timeout,
    Disconnected,
}
impl fmt::Display for RecvTimeoutError {
    fn fmt(&self, f: &mut fmt::Formatter<'_>) -> fmt::Result {
        match self {
            RecvTimeoutError::Timeout => "timed out waiting on a channel".fmt(f),
            RecvTimeoutError::Disconnected => "channel is empty and closed".fmt(f),
        }
    }
}
impl std::error::Error for RecvTimeoutError {}

#[derive(Copy, Clone, PartialEq, Eq)]
pub enum SendTimeoutError<T> {
    Timeout(T),
    Disconnected(T),
}
impl<T> fmt::Debug for SendTimeoutError<T> {
    fn fmt(&self, f: &mut fmt::Formatter<'_>) -> fmt::Result {
        "SendTimeoutError(..)".fmt(f)
    }
}

pub fn unbounded<T>() -> (Sender<T>, Receiver<T>) {
    let (t, r) = chan::channel(None, true);
    (Sender(t), Receiver(r))
}
pub fn bounded<T>(cap: usize) -> (Sender<T>, Receiver<T>) {
    let (t, r) = chan::channel(Some(cap), true);
    (Sender(t), Receiver(r))
}

impl<T> Sender<T> {
    pub fn send(&self, msg: T) -> Result<(), SendError<T>> {
        self.0.send(msg).map_err(SendError)
    }
    pub fn try_send(&self, msg: T) -> Result<(), TrySendError<T>> {
        self.0.try_send(msg).map_err(|e| match e {
            TrySendErr::Full(v) => TrySendError::Full(v),
            TrySendErr::Disconnected(v) => TrySendError::Disconnected(v),
        })
    }
    pub fn send_timeout(&self, msg: T, _dur: Duration) -> Result<(), SendTimeoutError<T>> {
        let mut m = msg;
        for _ in 0..8 {
            match self.try_send(m) {
                Ok(()) => return Ok(()),
                Err(TrySendError::Disconnected(v)) => return Err(SendTimeoutError::Disconnected(v)),
                Err(TrySendError::Full(v)) => m = v,
            }
        }
        Err(SendTimeoutError::Timeout(m))
    }
    pub fn send_deadline(&self, msg: T, _deadline: Instant) -> Result<(), SendTimeoutError<T>> {
        self.send_timeout(msg, Duration::ZERO)
    }
    pub fn is_disconnected(&self) -> bool {
        self.0.is_disconnected()
    }
    pub fn is_empty(&self) -> bool {
        self.0.is_empty()
    }
    pub fn is_full(&self) -> bool {
        self.0.is_full()
    }
    pub fn len(&self) -> usize {
        self.0.len()
    }
    pub fn capacity(&self) -> Option<usize> {
        self.0.capacity()
    }
    pub fn same_channel(&self, other: &Sender<T>) -> bool {
        self.0.same_channel(&other.0)
    }
}
impl<T> Receiver<T> {
    pub fn recv(&self) -> Result<T, RecvError> {
        self.0.recv().map_err(|_| RecvError::Disconnected)
    }
    pub fn try_recv(&self) -> Result<T, TryRecvError> {
        self.0.try_recv().map_err(|e| match e {
            TryRecvErr::Empty => TryRecvError::Empty,
            TryRecvErr::Disconnected => TryRecvError::Disconnected,
        })
    }
    pub fn recv_timeout(&self, _dur: Duration) -> Result<T, RecvTimeoutError> {
        for _ in 0..8 {
            match self.try_recv() {
                Ok(v) => return Ok(v),
                Err(TryRecvError::Disconnected) => return Err(RecvTimeoutError::Disconnected),
                Err(TryRecvError::Empty) => {}
            }
        }
        Err(RecvTimeoutError::Timeout)
    }
    pub fn recv_deadline(&self, _deadline: Instant) -> Result<T, RecvTimeoutError> {
        self.recv_timeout(Duration::ZERO)
    }
    pub fn iter(&self) -> Iter<'_, T> {
        Iter { r: self }
    }
    pub fn try_iter(&self) -> TryIter<'_, T> {
        TryIter { r: self }
    }
    pub fn drain(&self) -> std::vec::IntoIter<T> {
        let mut v = Vec::new();
        while let Ok(x) = self.try_recv() {
            v.push(x);
        }
        v.into_iter()
    }
    pub fn is_disconnected(&self) -> bool {
        self.0.is_disconnected()
    }
    pub fn is_empty(&self) -> bool {
        self.0.is_empty()
    }
    pub fn is_full(&self) -> bool {
        self.0.is_full()
    }
    pub fn len(&self) -> usize {
        self.0.len()
    }
    pub fn capacity(&self) -> Option<usize> {
        self.0.capacity()
    }
    pub fn same_channel(&self, other: &Receiver<T>) -> bool {
        self.0.same_channel(&other.0)
    }
}
impl<T> Clone for Sender<T> {
    fn clone(&self) -> Self {
        Sender(self.0.clone())
    }
}
impl<T> Clone for Receiver<T> {
    fn clone(&self) -> Self {
        Receiver(self.0.clone())
    }
}
impl<T> fmt::Debug for Sender<T> {
    fn fmt(&self, f: &mut fmt::Formatter<'_>) -> fmt::Result {
        f.debug_struct("Sender").finish()
    }
}
impl<T> fmt::Debug for Receiver<T> {
    fn fmt(&self, f: &mut fmt::Formatter<'_>) -> fmt::Result {
        f.debug_struct("Receiver").finish()
    }
}
pub struct Iter<'a, T> {
    r: &'a Receiver<T>,
}
impl<T> Iterator for Iter<'_, T> {
    type Item = T;
    fn next(&mut self) -> Option<T> {
        self.r.recv().ok()
    }
}
pub struct TryIter<'a, T> {
    r: &'a Receiver<T>,
}
impl<T> Iterator for TryIter<'_, T> {
    type Item = T;
    fn next(&mut self) -> Option<T> {
        self.r.try_recv().ok()
    }
}
pub struct IntoIter<T> {
    r: Receiver<T>,
}
impl<T> Iterator for IntoIter<T> {
    type Item = T;
    fn next(&mut self) -> Option<T> {
        self.r.recv().ok()
    }
}
impl<T> IntoIterator for Receiver<T> {
    type Item = T;
    type IntoIter = IntoIter<T>;
    fn into_iter(self) -> IntoIter<T> {
        IntoIter { r: self }
    }
}
impl<'a, T> IntoIterator for &'a Receiver<T> {
    type Item = T;
    type IntoIter = Iter<'a, T>;
    fn into_iter(self) -> Iter<'a, T> {
        self.iter()
    }
}
