//! Helpers to build execution specs: command lines, swarm schedule / capacity / benign I/O knobs.

use crate::exec::{ExecSpec, InputMode, IoSpec, PolicySpec};
use fpsim_rt::rng::Rng;

pub const CHECK_MODES: [&[&str]; 5] = [
    &["check", "sanity"],
    &["check", "sanity", "its"],
    &["check", "all"],
    &["check", "all", "its"],
    &["check", "all", "its-stave"],
];

pub const VIEW_MODES: [&[&str]; 3] =
    [&["view", "rdh"], &["view", "its-readout-frames"], &["view", "its-readout-frames-data"]];

/// Build argv: input placeholder (file personality only) followed by the given parts.
pub fn argv(mode: InputMode, parts: &[&str]) -> Vec<String> {
    let mut v: Vec<String> = Vec::new();
    if mode == InputMode::File {
        v.push("@IN@".into());
    }
    v.extend(parts.iter().map(|s| s.to_string()));
    v
}

pub fn spec(mode: InputMode, parts: &[String], input: Vec<u8>) -> ExecSpec {
    let p: Vec<&str> = parts.iter().map(|s| s.as_str()).collect();
    let a = argv(mode.clone(), &p);
    let ar: Vec<&str> = a.iter().map(|s| s.as_str()).collect();
    let mut sp = ExecSpec::new(&ar, mode, input);
    // budgets grow with the input (also for runs that keep the canonical schedule): a step per packet and
    // message, wall clock 20 s per MB on top of the base
    sp.step_budget = sp.step_budget.saturating_add(sp.input.len() as u64 * 2);
    sp.timeout_ms = sp.timeout_ms.saturating_add((sp.input.len() as u64 / 1_000_000) * 20_000);
    sp
}

pub fn pick_input_mode(rng: &mut Rng) -> InputMode {
    if rng.chance(1, 2) {
        InputMode::File
    } else {
        InputMode::Pipe
    }
}

/// A non-canonical schedule policy drawn from the seed (swarm).
pub fn pick_policy(rng: &mut Rng, expected_steps: u64) -> PolicySpec {
    match rng.below(10) {
        0..=4 => PolicySpec::Random { p_permille: *rng.pick(&[50, 200, 500, 1000]) },
        5..=7 => PolicySpec::Pct { d: rng.range(1, 3) as u32 },
        _ => {
            let from = rng.below(expected_steps.max(2));
            PolicySpec::Starve {
                victim: rng.below(16) as u32,
                from,
                window: rng.range(10, expected_steps.max(20)),
            }
        }
    }
}

/// Schedule + capacity knobs for a non-reference run.
pub fn swarm_schedule(s: &mut ExecSpec, rng: &mut Rng, expected_steps: u64) {
    s.policy = pick_policy(rng, expected_steps);
    s.sched_seed = rng.next_u64();
    s.expected_steps = expected_steps.max(16);
    s.cap_limit = if rng.chance(1, 2) { Some(*rng.pick(&[1usize, 1, 2, 4, 8])) } else { None };
    // word-level checks can report several messages per 10 input bytes: scale with the input too
    s.step_budget = expected_steps.saturating_mul(50).saturating_add(5000).saturating_add(s.input.len() as u64 * 2);
}

/// Benign I/O faults: legal for any reader/writer and required to be invisible.
pub fn benign_io(s: &mut ExecSpec, rng: &mut Rng) {
    let mut io = IoSpec::default();
    if rng.chance(1, 2) {
        io.short_reads = Some((rng.next_u64(), *rng.pick(&[1usize, 7, 64, 1000, 8192])));
    }
    if rng.chance(1, 4) {
        io.eintr_every = Some(rng.range(2, 9) as u32);
    }
    if rng.chance(1, 3) {
        io.stdout_short_writes = Some((rng.next_u64(), *rng.pick(&[1usize, 5, 100, 4096])));
    }
    if rng.chance(1, 5) {
        io.stdout_eintr_every = Some(rng.range(2, 9) as u32);
    }
    if rng.chance(1, 4) {
        io.clock_jumps = Some(rng.next_u64());
    }
    // keep disruptive fields as they are
    io.eio_at = s.io.eio_at;
    io.eof_at = s.io.eof_at;
    io.stdout_fail_at = s.io.stdout_fail_at;
    io.stdout_errno = s.io.stdout_errno;
    io.stop_at_input_byte = s.io.stop_at_input_byte;
    io.stall_at = s.io.stall_at;
    s.io = io;
}

/// Value of `-E` in an argv, if present.
pub fn exit_code_arg(argv: &[String]) -> Option<i32> {
    argv.iter().position(|a| a == "-E").and_then(|i| argv.get(i + 1)).and_then(|v| v.parse().ok())
}
