//! Trials: serialisable (specs + oracle) units. A trial can be run any number of times — by the
//! shard loop, by the minimiser, and from a replay file in a fresh process — and must give the same
//! verdict each time.

use crate::exec::{ExecResult, ExecSpec};
use crate::framework::{case_key, Executor, Fail, TrialOutcome};
use crate::oracle;
use serde::{Deserialize, Serialize};
use serde_json::{json, Value};

#[derive(Serialize, Deserialize, Clone, Debug)]
pub enum Trial {
    /// C04: the run ends on its own, orderly, with an allowed exit status.
    Orderly { spec: ExecSpec, allowed_status: Vec<i32>, label: String },
    /// C05: outputs of every variant equal those of the canonical-schedule run.
    Sched { base: ExecSpec, variants: Vec<ExecSpec>, label: String },
    /// C01: conforming data: zero errors, no ERROR line, exit 0.
    Conform { spec: ExecSpec, label: String },
    /// C17: processing cut short (stop event at a step, stdout failing after N bytes, error cap,
    /// mid-stream fatal) ends orderly; a partial -o file holds whole packets only.
    EarlyStop {
        base: ExecSpec,
        /// Number of stop points to place (fractions of the reference run, from `points_seed`).
        n_points: u32,
        points_seed: u64,
        kind: StopKind,
        allowed_status: Vec<i32>,
        label: String,
    },
    /// C16: exit status per input class and error accounting under display options.
    /// specs[0] has no display option; `kinds[i]` says what specs[i] adds: "plain", "mute",
    /// "codes:<list>", "cap:<n>".
    ExitContract { specs: Vec<ExecSpec>, kinds: Vec<String>, class: String, exit_code: Option<i32>, label: String },
    /// C16: invalid option combination: rejected with non-zero status before any output is written.
    Rejected { spec: ExecSpec, label: String },
    /// Self-test: every execution is a pure function of its spec (run twice, compare everything).
    Determinism { specs: Vec<ExecSpec>, label: String },
    /// Self-test: the stubbed driver against the real binary (path in FPSIM_REAL_BIN).
    Fidelity { spec: ExecSpec, label: String },
    /// C20: user-configured checks: exactly the expected messages, nothing else.
    Custom { spec: ExecSpec, expect: CustomExpect, exit_code: i32, label: String },
    /// C20: an absent and an all-default custom-checks file give identical results.
    SameOutputs { a: ExecSpec, b: ExecSpec, label: String },
    /// C15: statistics file round trip (run A writes, run B verifies under another schedule) and
    /// drift detection: every leaf of the written file perturbed one at a time, plus an input change.
    StatsRt { a: ExecSpec, b: ExecSpec, exit_code: i32, enumerate_leaves: bool, label: String },
    /// C13: stave-level frame verdicts equal the encoder's ground truth; the verdict and the
    /// readout-flag counters do not depend on the pixel-hit content (runs differ only in it).
    Alpide { runs: Vec<AlpideRun>, flags: Vec<u64>, label: String },
    /// C06: per-link findings are the same in every setting. `runs[0]` is the reference (a full run
    /// on one merge); each other run is compared for the groups named in its role.
    Isolate { runs: Vec<(IsoRole, ExecSpec)>, by_fee: bool, label: String },
    /// C02: one catalogue fault; every mode in which the rule is active must report it.
    Fault {
        /// one spec per check mode (index into CHECK_MODES)
        runs: Vec<(usize, ExecSpec)>,
        expects: Vec<ExpectRec>,
        silent_in_sanity: bool,
        silent_in_sanity_no_target: bool,
        exit_code: i32,
        fault: String,
    },
    /// C10: [E10]/[E11] at an RDH's offset iff the reference models flag it.
    RdhWalk { spec: ExecSpec, e10: Vec<u64>, e11: Vec<u64>, running: bool, label: String },
    /// C09: in-process walk of the real FSM / payload validator against the diagram model.
    FsmWalk {
        #[serde(with = "crate::b64")]
        words: Vec<u8>,
        /// number of words per packet (the walk is cut into packets of one link)
        packet_lens: Vec<u32>,
        label: String,
    },
    /// C12: words planted at chosen indices are reported exactly at their offsets (word cutting).
    Markers { spec: ExecSpec, marker_offsets: Vec<u64>, label: String },
    /// C12: a payload ending in more than 15 bytes of 0xFF: one payload error, nothing inside the
    /// payload, next packet judged from the initial state.
    ExcessPadding {
        spec: ExecSpec,
        rdh_off: u64,
        payload_end: u64,
        /// the run must report exactly one error (the payload error)
        expect_only_payload_error: bool,
        /// the next packet of the link is a stop page: its DDW0 must be judged as the expected IHW
        e30_at: Option<u64>,
        /// a second payload of the same link with the same fault (RDH offset, payload end): the reset must
        /// happen every time, not only the first
        #[serde(default)]
        second: Option<(u64, u64)>,
        label: String,
    },
    /// C19: a view shows exactly what is in the data (unstyled run + styled run).
    Views { plain: ExecSpec, styled: ExecSpec, conforming: bool, label: String },
    /// C07: every reported offset / quoted byte dump / quoted RDH row is truthful.
    Truthful { spec: ExecSpec, label: String },
    /// C03: one well-framed input under several payload-handling paths.
    Scan { specs: Vec<ExecSpec>, label: String },
    /// C08: filtered writing for every distinct value of one filter kind.
    FilterWrite { base: ExecSpec, filters: Vec<Vec<String>>, to_file: bool, label: String },
    /// C14: statistics file / report against ground truth.
    StatsTruth { spec: ExecSpec, analysed: bool, label: String },
    /// C18: input ends after k bytes, for each k in `cuts`.
    Truncate { full: ExecSpec, cuts: Vec<u64>, allowed_status: Vec<i32>, rows_mode: bool, label: String },
}

#[derive(Serialize, Deserialize, Clone, Debug)]
pub struct AlpideRun {
    pub spec: ExecSpec,
    pub frames: Vec<FrameExpect>,
    /// readout-flag counters computed from the chips of the frames this variant contains
    pub flags: Vec<u64>,
}

#[derive(Serialize, Deserialize, Clone, Debug, PartialEq)]
pub struct FrameExpect {
    /// offset of the frame start (the TDH that opens the frame)
    pub offset: u64,
    /// code of the lane-count / grouping message expected there (E72 / E73), if any
    pub lanes_code: Option<String>,
    /// code of the lane-error message expected there (E74 / E75), if any
    pub lane_err_code: Option<String>,
    /// E900x codes the lane-error message must carry
    pub sub_codes: Vec<String>,
    pub empty: bool,
    pub dont_care: bool,
}

#[derive(Serialize, Deserialize, Clone, Debug, PartialEq, Default)]
pub struct CustomExpect {
    pub e9001: bool,
    pub e9002: bool,
    /// [E10] (header ID) expected at each of these RDH offsets
    pub e10_offsets: Vec<u64>,
    /// frame starts where a lane-error message carrying this E900x code is expected
    pub frame_codes: Vec<(u64, String)>,
    /// frame starts that must carry no lane-error message
    pub clean_frames: Vec<u64>,
    /// TDH offsets where [E45] is expected
    pub e45_offsets: Vec<u64>,
}

#[derive(Serialize, Deserialize, Clone, Debug, PartialEq)]
pub enum IsoRole {
    /// full run, reference
    Reference,
    /// full run on another merge of the same per-link sequences: every group compared
    OtherMerge,
    /// physically extracted single-group stream: that group compared
    Extracted(u16),
    /// filter run on the reference stream: that group compared
    Filtered(u16),
    /// single-threaded pass of the extracted stream through one validator
    Sequential(u16),
    /// reference stream with an extra fault on group g: every group except g compared
    CorruptedOther(u16),
}

#[derive(Serialize, Deserialize, Clone, Debug, PartialEq)]
pub struct ExpectRec {
    pub codes: Vec<String>,
    pub offset: u64,
    pub sanity: bool,
    pub all: bool,
    pub needs_its: bool,
    pub stave_only: bool,
}

#[derive(Serialize, Deserialize, Clone, Debug, PartialEq)]
pub enum StopKind {
    /// The store the signal handler performs, injected at a decision step.
    StopEvent,
    /// Writes to stdout fail (EPIPE / ENOSPC) once N bytes were accepted.
    StdoutFails { errno: i32 },
    /// The stop condition is in the input / options (error cap, fatal framing error): no injection.
    Intrinsic,
}

/// Run-time invariants that hold for every execution of every trial.
pub fn check_orderly(r: &ExecResult) -> Option<Fail> {
    Fail::from_disorder(r)
}

pub struct Observed {
    pub status: i32,
    pub errors: Vec<String>,
    pub warns: Vec<String>,
    pub stdout: String,
    pub stats: Option<Vec<u8>>,
    pub out_file: Option<Vec<u8>>,
}

pub fn observe(r: &ExecResult) -> Observed {
    let msgs = oracle::log_messages(&r.stderr);
    let mut warns: Vec<String> =
        msgs.iter().filter(|m| m.level == "WARN").map(|m| m.text.clone()).collect();
    warns.sort();
    Observed {
        status: r.status,
        errors: msgs.iter().filter(|m| m.level != "WARN").map(|m| format!("{} {}", m.level, m.text)).collect(),
        warns,
        stdout: oracle::normalise_stdout(&r.stdout),
        stats: r.stats_file.clone(),
        out_file: r.out_file.clone(),
    }
}

fn first_diff(a: &str, b: &str) -> String {
    let la: Vec<&str> = a.lines().collect();
    let lb: Vec<&str> = b.lines().collect();
    for i in 0..la.len().max(lb.len()) {
        let x = la.get(i).copied().unwrap_or("<missing>");
        let y = lb.get(i).copied().unwrap_or("<missing>");
        if x != y {
            return format!("line {i}: canonical `{}` vs `{}`", clip(x), clip(y));
        }
    }
    "no line differs (length?)".into()
}

pub fn clip_pub(s: &str) -> String {
    clip(s)
}

fn clip(s: &str) -> String {
    if s.len() > 160 {
        let mut e = 160;
        while !s.is_char_boundary(e) {
            e -= 1;
        }
        format!("{}...", &s[..e])
    } else {
        s.to_string()
    }
}

/// Compare a run against the reference run: everything the property lists must be identical.
pub fn compare_runs(reference: &Observed, other: &Observed) -> Option<Fail> {
    if reference.status != other.status {
        return Some(Fail::new(
            "order-dependence",
            "exit-status",
            format!("exit status {} (canonical schedule) vs {}", reference.status, other.status),
        ));
    }
    if reference.errors != other.errors {
        let a = reference.errors.join("\n");
        let b = other.errors.join("\n");
        return Some(Fail::new(
            "order-dependence",
            "stderr-error-lines",
            format!(
                "error messages differ ({} vs {} messages): {}",
                reference.errors.len(),
                other.errors.len(),
                first_diff(&a, &b)
            ),
        ));
    }
    if reference.stats != other.stats {
        let a = String::from_utf8_lossy(reference.stats.as_deref().unwrap_or(b"<none>")).into_owned();
        let b = String::from_utf8_lossy(other.stats.as_deref().unwrap_or(b"<none>")).into_owned();
        return Some(Fail::new(
            "order-dependence",
            "statistics-file",
            format!("statistics file differs: {}", first_diff(&a, &b)),
        ));
    }
    if reference.stdout != other.stdout {
        return Some(Fail::new(
            "order-dependence",
            "stdout",
            format!("stdout differs: {}", first_diff(&reference.stdout, &other.stdout)),
        ));
    }
    if reference.warns != other.warns {
        return Some(Fail::new(
            "order-dependence",
            "stderr-warn-multiset",
            format!(
                "WARN messages differ as a multiset: {}",
                first_diff(&reference.warns.join("\n"), &other.warns.join("\n"))
            ),
        ));
    }
    if reference.out_file != other.out_file {
        return Some(Fail::new("order-dependence", "output-file", "filtered output file differs"));
    }
    None
}

impl Trial {
    pub fn run(&self, ex: &mut Executor) -> TrialOutcome {
        match self {
            Trial::Orderly { spec, allowed_status, label } => {
                let r = ex.exec(spec);
                let mut out = TrialOutcome {
                    nontrivial: r.outcome.threads >= 2,
                    key: case_key(&spec.input, &r),
                    labels: vec![label.clone()],
                    ..Default::default()
                };
                if let Some(f) = check_orderly(&r) {
                    out.fail = Some(f);
                } else if !allowed_status.contains(&r.status) {
                    out.fail = Some(Fail::new(
                        "exit-status",
                        "exit-status-set",
                        format!("exit status {} not in {:?}", r.status, allowed_status),
                    ));
                }
                out
            }
            Trial::Sched { base, variants, label } => {
                let r0 = ex.exec(base);
                let mut out = TrialOutcome {
                    nontrivial: r0.outcome.threads >= 4,
                    key: case_key(&base.input, &r0),
                    labels: vec![label.clone()],
                    ..Default::default()
                };
                if let Some(f) = check_orderly(&r0) {
                    out.fail = Some(f);
                    return out;
                }
                let o0 = observe(&r0);
                if oracle::has_fatal(&r0.stderr) {
                    // excluded by the statement (fatal input error): nothing to compare
                    out.nontrivial = false;
                    out.labels.push("excluded:fatal".into());
                    return out;
                }
                let mut arrivals = std::collections::BTreeSet::new();
                arrivals.insert(r0.outcome.arrival_hash);
                for v in variants {
                    let mut v = v.clone();
                    v.expected_steps = r0.outcome.steps.max(16);
                    v.step_budget = r0.outcome.steps.saturating_mul(50) + 5000;
                    if let crate::exec::PolicySpec::Starve { victim, from, window } = v.policy.clone() {
                        let s = r0.outcome.steps.max(2);
                        v.policy = crate::exec::PolicySpec::Starve {
                            victim,
                            from: from % s,
                            window: window % s + 10,
                        };
                    }
                    let r = ex.exec(&v);
                    arrivals.insert(r.outcome.arrival_hash);
                    if let Some(f) = check_orderly(&r) {
                        out.fail = Some(f);
                        return out;
                    }
                    if let Some(f) = compare_runs(&o0, &observe(&r)) {
                        out.fail = Some(f);
                        return out;
                    }
                }
                if arrivals.len() >= 2 {
                    ex.probe("case_with_2plus_collector_arrival_orders");
                }
                out
            }
            Trial::Conform { spec, label } => {
                let r = ex.exec(spec);
                let mut out = TrialOutcome {
                    nontrivial: r.outcome.threads >= 4,
                    key: case_key(&spec.input, &r),
                    labels: vec![label.clone()],
                    ..Default::default()
                };
                if let Some(f) = check_orderly(&r) {
                    out.fail = Some(f);
                    return out;
                }
                out.fail = conform_verdict(&r, spec);
                out
            }
            Trial::EarlyStop { base, n_points, points_seed, kind, allowed_status, label } => {
                run_early_stop(ex, base, *n_points, *points_seed, kind, allowed_status, label)
            }
            Trial::Truncate { full, cuts, allowed_status, rows_mode, label } => {
                run_truncate(ex, full, cuts, allowed_status, *rows_mode, label)
            }
            Trial::ExitContract { specs, kinds, class, exit_code, label } => {
                crate::t_exit::run_exit_contract(ex, specs, kinds, class, *exit_code, label)
            }
            Trial::Rejected { spec, label } => crate::t_exit::run_rejected(ex, spec, label),
            Trial::Truthful { spec, label } => crate::t_stream::run_truthful(ex, spec, label),
            Trial::Isolate { runs, by_fee, label } => crate::t_isolate::run_isolate(ex, runs, *by_fee, label),
            Trial::Alpide { runs, flags, label } => run_alpide(ex, runs, flags, label),
            Trial::Determinism { specs, label } => crate::selftest::run_determinism(ex, specs, label),
            Trial::Fidelity { spec, label } => crate::selftest::run_fidelity(ex, spec, label),
            Trial::Custom { spec, expect, exit_code, label } => run_custom(ex, spec, expect, *exit_code, label),
            Trial::SameOutputs { a, b, label } => {
                let ra = ex.exec(a);
                let mut out = TrialOutcome {
                    nontrivial: ra.outcome.threads >= 4,
                    key: case_key(&a.input, &ra),
                    labels: vec![label.clone()],
                    ..Default::default()
                };
                if let Some(f) = check_orderly(&ra) {
                    out.fail = Some(f);
                    return out;
                }
                let rb = ex.exec(b);
                if let Some(f) = check_orderly(&rb) {
                    out.fail = Some(f);
                    return out;
                }
                if let Some(mut f) = compare_runs(&observe(&ra), &observe(&rb)) {
                    f.class = "custom-checks".into();
                    f.site = format!("default-file-changes-result:{}", f.site);
                    f.message = format!("`{}` vs `{}`: {}", a.cmdline(), b.cmdline(), f.message);
                    out.fail = Some(f);
                }
                out
            }
            Trial::StatsRt { a, b, exit_code, enumerate_leaves, label } => {
                crate::t_statsrt::run_stats_rt(ex, a, b, *exit_code, *enumerate_leaves, label)
            }
            Trial::Fault { runs, expects, silent_in_sanity, silent_in_sanity_no_target, exit_code, fault } => {
                run_fault(ex, runs, expects, *silent_in_sanity, *silent_in_sanity_no_target, *exit_code, fault)
            }
            Trial::RdhWalk { spec, e10, e11, running, label } => run_rdh_walk(ex, spec, e10, e11, *running, label),
            Trial::FsmWalk { words, packet_lens, label } => crate::t_fsm::run_fsm_walk(ex, words, packet_lens, label),
            Trial::Markers { spec, marker_offsets, label } => run_markers(ex, spec, marker_offsets, label),
            Trial::ExcessPadding { spec, rdh_off, payload_end, expect_only_payload_error, e30_at, second, label } => {
                run_excess_padding(ex, spec, *rdh_off, *payload_end, *expect_only_payload_error, *e30_at, *second, label)
            }
            Trial::Views { plain, styled, conforming, label } => {
                crate::t_views::run_views(ex, plain, styled, *conforming, label)
            }
            Trial::Scan { specs, label } => crate::t_stream::run_scan(ex, specs, label),
            Trial::FilterWrite { base, filters, to_file, label } => {
                crate::t_stream::run_filter_write(ex, base, filters, *to_file, label)
            }
            Trial::StatsTruth { spec, analysed, label } => run_stats_truth(ex, spec, *analysed, label),
        }
    }

    pub fn specs_mut(&mut self) -> Vec<&mut ExecSpec> {
        match self {
            Trial::Orderly { spec, .. } => vec![spec],
            Trial::Sched { base, variants, .. } => {
                let mut v = vec![base];
                v.extend(variants.iter_mut());
                v
            }
            Trial::Conform { spec, .. } => vec![spec],
            Trial::EarlyStop { base, .. } => vec![base],
            Trial::Truncate { full, .. } => vec![full],
            Trial::Scan { specs, .. } => specs.iter_mut().collect(),
            Trial::ExitContract { specs, .. } => specs.iter_mut().collect(),
            Trial::Rejected { spec, .. } => vec![spec],
            Trial::Truthful { spec, .. } => vec![spec],
            Trial::Markers { spec, .. } => vec![spec],
            Trial::RdhWalk { spec, .. } => vec![spec],
            Trial::Fault { runs, .. } => runs.iter_mut().map(|(_, s)| s).collect(),
            Trial::Isolate { runs, .. } => runs.iter_mut().map(|(_, s)| s).collect(),
            Trial::Alpide { runs, .. } => runs.iter_mut().map(|r| &mut r.spec).collect(),
            Trial::StatsRt { a, b, .. } => vec![a, b],
            Trial::Custom { spec, .. } => vec![spec],
            Trial::Determinism { specs, .. } => specs.iter_mut().collect(),
            Trial::Fidelity { spec, .. } => vec![spec],
            Trial::SameOutputs { a, b, .. } => vec![a, b],
            Trial::FsmWalk { .. } => vec![],
            Trial::ExcessPadding { spec, .. } => vec![spec],
            Trial::Views { plain, styled, .. } => vec![plain, styled],
            Trial::FilterWrite { base, .. } => vec![base],
            Trial::StatsTruth { spec, .. } => vec![spec],
        }
    }

    /// May trailing packets of the input be dropped while minimising?
    pub fn input_shrinkable(&self) -> bool {
        matches!(
            self,
            Trial::Orderly { .. }
                | Trial::Sched { .. }
                | Trial::Scan { .. }
                | Trial::FilterWrite { .. }
                | Trial::StatsTruth { .. }
                | Trial::EarlyStop { .. }
        )
    }

    /// Drop variants one at a time (for trials that have several).
    pub fn drop_candidates(&self) -> Vec<Trial> {
        match self {
            Trial::Sched { base, variants, label } if variants.len() > 1 => (0..variants.len())
                .map(|i| Trial::Sched {
                    base: base.clone(),
                    variants: vec![variants[i].clone()],
                    label: label.clone(),
                })
                .collect(),
            Trial::Fault { runs, expects, silent_in_sanity, silent_in_sanity_no_target, exit_code, fault } if runs.len() > 1 => runs
                .iter()
                .map(|r| Trial::Fault {
                    runs: vec![r.clone()],
                    expects: expects.clone(),
                    silent_in_sanity: *silent_in_sanity,
                    silent_in_sanity_no_target: *silent_in_sanity_no_target,
                    exit_code: *exit_code,
                    fault: fault.clone(),
                })
                .collect(),
            Trial::Isolate { runs, by_fee, label } if runs.len() > 2 => (1..runs.len())
                .map(|i| Trial::Isolate {
                    runs: vec![runs[0].clone(), runs[i].clone()],
                    by_fee: *by_fee,
                    label: label.clone(),
                })
                .collect(),
            Trial::Scan { specs, label } if specs.len() > 1 => specs
                .iter()
                .map(|sp| Trial::Scan { specs: vec![sp.clone()], label: label.clone() })
                .collect(),
            Trial::FilterWrite { base, filters, to_file, label } if filters.len() > 1 && !label.contains("partition") => filters
                .iter()
                .map(|f| Trial::FilterWrite {
                    base: base.clone(),
                    filters: vec![f.clone()],
                    to_file: *to_file,
                    label: label.clone(),
                })
                .collect(),
            Trial::Truncate { full, cuts, allowed_status, rows_mode, label } if cuts.len() > 1 => cuts
                .iter()
                .map(|c| Trial::Truncate {
                    full: full.clone(),
                    cuts: vec![*c],
                    allowed_status: allowed_status.clone(),
                    rows_mode: *rows_mode,
                    label: label.clone(),
                })
                .collect(),
            _ => vec![],
        }
    }

    pub fn summary(&self) -> Value {
        let s = |spec: &ExecSpec| {
            json!({
                "cmdline": spec.cmdline(), "input_mode": format!("{:?}", spec.input_mode),
                "input_bytes": spec.input.len(), "policy": spec.policy.name(),
                "cap_limit": spec.cap_limit, "io_faults": spec.io.any(),
                "io_benign_only": spec.io.is_benign(), "stop_at_step": spec.stop_at_step
            })
        };
        match self {
            Trial::Orderly { spec, label, .. } => json!({"trial": "orderly", "label": label, "exec": s(spec)}),
            Trial::Sched { base, variants, label } => json!({
                "trial": "sched", "label": label, "reference": s(base),
                "variants": variants.iter().map(|v| json!({"policy": v.policy.name(), "cap_limit": v.cap_limit})).collect::<Vec<_>>()
            }),
            Trial::Conform { spec, label } => json!({"trial": "conform", "label": label, "exec": s(spec)}),
            Trial::EarlyStop { base, n_points, kind, label, .. } => json!({
                "trial": "early-stop", "label": label, "stop_kind": format!("{kind:?}"), "stop_points": n_points, "exec": s(base)}),
            Trial::ExitContract { specs, kinds, class, exit_code, label } => json!({
                "trial": "exit-contract", "label": label, "input_class": class, "any_errors_exit_code": exit_code,
                "runs": kinds, "exec": s(&specs[0])}),
            Trial::Rejected { spec, label } => json!({"trial": "rejected", "label": label, "exec": s(spec)}),
            Trial::Truthful { spec, label } => json!({"trial": "truthful", "label": label, "exec": s(spec)}),
            Trial::Determinism { specs, label } => json!({"trial": "determinism", "label": label, "execs": specs.len()}),
            Trial::Fidelity { spec, label } => json!({"trial": "fidelity", "label": label, "exec": s(spec)}),
            Trial::Custom { spec, expect, exit_code, label } => json!({
                "trial": "custom-checks", "label": label, "any_errors_exit_code": exit_code,
                "custom_checks_toml": spec.custom_checks_toml,
                "expect": {"E9001": expect.e9001, "E9002": expect.e9002, "E10_at_rdhs": expect.e10_offsets.len(),
                           "frames_with_E900x": expect.frame_codes.len(), "clean_frames": expect.clean_frames.len(),
                           "E45_at_tdhs": expect.e45_offsets.len()},
                "exec": s(spec)}),
            Trial::SameOutputs { a, b, label } => json!({
                "trial": "same-outputs", "label": label, "a": s(a), "b_cmdline": b.cmdline(), "b_custom_checks_toml": b.custom_checks_toml}),
            Trial::StatsRt { a, b, exit_code, enumerate_leaves, label } => json!({
                "trial": "stats-round-trip", "label": label, "any_errors_exit_code": exit_code,
                "all_leaves_perturbed": enumerate_leaves, "run_a": s(a), "run_b_cmdline": b.cmdline()}),
            Trial::Alpide { runs, flags, label } => json!({
                "trial": "alpide", "label": label, "frames": runs[0].frames.len(),
                "frames_with_broken_rule": runs[0].frames.iter().filter(|f| f.lanes_code.is_some() || f.lane_err_code.is_some() || f.empty).count(),
                "readout_flag_truth": flags, "hit_content_variants": runs.len(), "exec": s(&runs[0].spec)}),
            Trial::Isolate { runs, by_fee, label } => json!({
                "trial": "isolate", "label": label, "group_by": if *by_fee { "FEE ID" } else { "link" },
                "runs": runs.iter().map(|(r, sp)| json!({"role": format!("{r:?}"), "cmdline": sp.cmdline(), "input_bytes": sp.input.len(), "sequential_pass": sp.seq_pass})).collect::<Vec<_>>()}),
            Trial::Fault { runs, expects, fault, exit_code, .. } => json!({
                "trial": "fault", "fault": fault, "any_errors_exit_code": exit_code,
                "expectations": expects.iter().map(|e| json!({"codes": e.codes, "offset": format!("{:#X}", e.offset),
                    "check_sanity": e.sanity, "check_all": e.all, "needs_its_target": e.needs_its, "stave_only": e.stave_only})).collect::<Vec<_>>(),
                "modes_run": runs.len(), "exec": s(&runs[0].1)}),
            Trial::RdhWalk { spec, e10, e11, running, label } => json!({
                "trial": "rdh-walk", "label": label, "rdhs": spec.input.len() / 64, "expected_E10": e10.len(),
                "expected_E11": if *running { e11.len() } else { 0 }, "exec": s(spec)}),
            Trial::FsmWalk { words, packet_lens, label } => json!({
                "trial": "fsm-walk", "label": label, "words": words.len() / 10, "packets": packet_lens.len()}),
            Trial::Markers { spec, marker_offsets, label } => json!({
                "trial": "markers", "label": label, "marker_offsets": marker_offsets, "exec": s(spec)}),
            Trial::ExcessPadding { spec, rdh_off, payload_end, expect_only_payload_error, e30_at, label, .. } => json!({
                "trial": "excess-padding", "label": label, "rdh_offset": rdh_off, "payload_end": payload_end,
                "expect_only_payload_error": expect_only_payload_error, "e30_at": e30_at, "exec": s(spec)}),
            Trial::Views { plain, conforming, label, .. } => json!({"trial": "views", "label": label, "conforming": conforming, "exec": s(plain)}),
            Trial::Scan { specs, label } => json!({
                "trial": "scan", "label": label, "execs": specs.iter().map(|x| s(x)).collect::<Vec<_>>()}),
            Trial::FilterWrite { base, filters, to_file, label } => json!({
                "trial": "filter-write", "label": label, "to_file": to_file, "filters": filters, "exec": s(base)}),
            Trial::StatsTruth { spec, analysed, label } => json!({
                "trial": "stats-truth", "label": label, "analysed": analysed, "exec": s(spec)}),
            Trial::Truncate { full, cuts, label, rows_mode, .. } => json!({
                "trial": "truncate", "label": label, "cut_positions": cuts.len(),
                "first_cuts": cuts.iter().take(8).collect::<Vec<_>>(), "rows_mode": rows_mode, "exec": s(full)}),
        }
    }
}

/// C01 oracle.
pub fn conform_verdict(r: &ExecResult, spec: &ExecSpec) -> Option<Fail> {
    let errs = oracle::error_msgs(&r.stderr);
    if let Some(e) = errs.first() {
        let code = e.codes.first().cloned().unwrap_or_else(|| "no-code".into());
        return Some(Fail::new(
            "false-alarm",
            &code,
            format!("conforming data rejected ({} error lines), first: {}", errs.len(), clip(&e.text)),
        ));
    }
    if r.status != 0 {
        return Some(Fail::new(
            "false-alarm",
            "exit-status",
            format!("conforming data: exit status {} (cmd: {})", r.status, spec.cmdline()),
        ));
    }
    if let Some(sf) = &r.stats_file {
        if let Some(v) = oracle::parse_stats(sf, &spec.stats_ext) {
            let total = oracle::stats_u64(&v, &["error_stats", "total_errors"]).unwrap_or(0);
            let rep = oracle::reported_errors(&v);
            if total != 0 || !rep.is_empty() {
                return Some(Fail::new(
                    "false-alarm",
                    "statistics-total-errors",
                    format!("conforming data: total_errors={total}, first: {:?}", rep.first()),
                ));
            }
        }
    }
    if let Some(n) = oracle::report_total_errors(&r.stdout) {
        if n != 0 {
            return Some(Fail::new(
                "false-alarm",
                "report-total-errors",
                format!("conforming data: report shows Total Errors {n}"),
            ));
        }
    }
    None
}

/// Whole packets only: `out` walks cleanly to its last byte and is a prefix of `expected`.
pub fn whole_packet_prefix(out: &[u8], expected: &[u8]) -> Option<Fail> {
    use itsgen::walker::{walk, WalkEnd};
    if out.len() > expected.len() || out != &expected[..out.len()] {
        return Some(Fail::new(
            "partial-output",
            "not-a-prefix",
            format!("partial output ({} bytes) is not a prefix of the expected filtered data ({} bytes)", out.len(), expected.len()),
        ));
    }
    let w = walk(out);
    if w.end != WalkEnd::Clean {
        return Some(Fail::new(
            "partial-output",
            "torn-packet",
            format!("partial output of {} bytes does not end at a packet boundary: {:?}", out.len(), w.end),
        ));
    }
    None
}

fn expected_filtered(input: &[u8], argv: &[String]) -> Option<Vec<u8>> {
    use itsgen::walker::{walk, Filter};
    let get = |flag: &str| argv.iter().position(|a| a == flag).and_then(|i| argv.get(i + 1)).cloned();
    let f = if let Some(v) = get("-f") {
        Filter::Link(v.parse().ok()?)
    } else if let Some(v) = get("-F") {
        Filter::Fee(v.parse().ok()?)
    } else if let Some(v) = get("-s") {
        let v = v.trim_start_matches(|c| c == 'L' || c == 'l');
        let (l, st) = v.split_once('_')?;
        Filter::Stave(itsgen::rdh::fee_id(l.parse().ok()?, st.parse().ok()?, 0))
    } else {
        return None;
    };
    let w = walk(input);
    // "whole packet" is only defined for well-framed input (offset-to-next == memory size)
    if w.pkts.iter().any(|p| p.rdh.offset_next != p.rdh.memory_size) {
        return None;
    }
    let mut out = Vec::new();
    for p in &w.pkts {
        if p.complete && f.matches(&p.rdh) {
            out.extend_from_slice(&input[p.off..p.payload.end]);
        }
    }
    Some(out)
}

/// Bounded reaction of the reader to the stop flag, whoever raised it (C17).
fn reaction_bound(ex: &mut Executor, r: &ExecResult, v: &ExecSpec) -> Option<Fail> {
    // What is still to be worked off when the stop flag goes up is bounded by the program's configuration
    // (queue capacities), not by the input: no data queue holds more undelivered packets than the largest
    // capacity configured for a data queue in this run.
    if let Some((worst, bound)) = r.outcome.backlog_at_stop {
        if bound > 0 && worst > bound {
            return Some(Fail::new(
                "early-stop",
                "backlog-at-stop-not-bounded-by-configuration",
                format!(
                    "at the stop event one data queue holds {worst} undelivered messages; the largest capacity configured for a data queue in this run is {bound} [cmd: {}]",
                    v.cmdline()
                ),
            ));
        }
        ex.probe(if worst == 0 { "backlog_at_stop=0" } else if worst * 2 <= bound { "backlog_at_stop<=half_capacity" } else { "backlog_at_stop<=capacity" });
    }
    if let Some(after) = r.io.input_bytes_after_stop {
        // in units of one reader batch (100 packets of the largest packet of this input)
        let w = itsgen::walker::walk(&v.input);
        let max_pkt = w.pkts.iter().map(|p| p.rdh.offset_next as u64).max().unwrap_or(64).max(64);
        let batch = 100 * max_pkt;
        // Bounded reaction: the reader looks at the stop flag once per batch of 100 packets, so after
        // the store it finishes at most the batch it is in, plus what its 50 KiB read-ahead buffer
        // (8 KiB for stdin) fetches. The time to stop must not grow with the input that is left.
        let bound = batch + 64 * 1024;
        if after > bound {
            return Some(Fail::new(
                "early-stop",
                "keeps-reading-after-stop-event",
                format!(
                    "{after} input bytes were read after the stop flag was raised ({}) (bound: one batch of 100 packets = {batch} bytes + 64 KiB read-ahead) [cmd: {}]",
                    match (v.stop_at_step, v.io.stop_at_input_byte) {
                        (Some(s), _) => format!("stop event injected at step {s}"),
                        (None, Some(b)) => format!("stop event injected when {b} input bytes were read"),
                        (None, None) => "by the program: error cap / fatal / failed output".to_string(),
                    },
                    v.cmdline()
                ),
            ));
        }
        let x = after * 10 / batch; // tenths of a batch
        ex.probe(match x {
            0 if after == 0 => "bytes_read_after_stop=0",
            0..=4 => "bytes_read_after_stop<0.5batch",
            5..=10 => "bytes_read_after_stop<=1batch",
            11..=20 => "bytes_read_after_stop<=2batches",
            21..=40 => "bytes_read_after_stop<=4batches",
            _ => "bytes_read_after_stop>4batches",
        });
    }
    None
}

fn run_early_stop(
    ex: &mut Executor,
    base: &ExecSpec,
    n_points: u32,
    points_seed: u64,
    kind: &StopKind,
    allowed_status: &[i32],
    label: &str,
) -> TrialOutcome {
    use fpsim_rt::rng::Rng;
    if base.input_repeat.map_or(false, |n| n >= crate::scenarios::ENDLESS) {
        return run_endless(ex, base, allowed_status, label);
    }
    // reference: same spec without the injected stop
    let mut reference = base.clone();
    reference.stop_at_step = None;
    reference.io.stdout_fail_at = None;
    let r0 = ex.exec(&reference);
    let mut out = TrialOutcome {
        nontrivial: r0.outcome.threads >= 3,
        key: case_key(&base.input, &r0),
        labels: vec![label.to_string()],
        ..Default::default()
    };
    let verdict = |r: &ExecResult, spec: &ExecSpec| -> Option<Fail> {
        if let Some(f) = check_orderly(r) {
            return Some(f);
        }
        if !allowed_status.contains(&r.status) {
            return Some(Fail::new(
                "exit-status",
                "exit-status-set",
                format!("exit status {} not in {:?}", r.status, allowed_status),
            ));
        }
        if let (Some(of), Some(exp)) = (&r.out_file, expected_filtered(&spec.input, &spec.argv)) {
            if let Some(f) = whole_packet_prefix(of, &exp) {
                return Some(f);
            }
        }
        None
    };
    if let Some(f) = verdict(&r0, &reference) {
        out.fail = Some(f);
        return out;
    }
    if *kind == StopKind::Intrinsic {
        out.fail = reaction_bound(ex, &r0, &reference);
        return out;
    }
    let mut rng = Rng::new(points_seed);
    let steps = r0.outcome.steps.max(1);
    let out_len = r0.stdout.len() as u64;
    for i in 0..n_points {
        let mut v = base.clone();
        v.expected_steps = steps.max(16);
        v.step_budget = steps.saturating_mul(50) + 5000;
        match kind {
            StopKind::StopEvent => {
                // first and last steps are always tried; the rest uniformly - every third of them tied to
                // the input instead (the stop event when a drawn number of input bytes has been read: this
                // also reaches a reader that loops over skipped packets between two decision steps)
                if i >= 2 && i % 3 == 2 && !base.input.is_empty() {
                    v.io.stop_at_input_byte = Some(1 + rng.below(base.input.len() as u64));
                } else {
                    let at = match i {
                        0 => 1,
                        1 => steps,
                        _ => 1 + rng.below(steps),
                    };
                    v.stop_at_step = Some(at);
                }
            }
            StopKind::StdoutFails { errno } => {
                let at = match i {
                    0 => 0,
                    1 => out_len.saturating_sub(1),
                    _ => rng.below(out_len + 1),
                };
                v.io.stdout_fail_at = Some(at);
                v.io.stdout_errno = *errno;
            }
            StopKind::Intrinsic => {}
        }
        // the last stop point of a pipe case: the writer of the pipe stalls after a drawn number of bytes (the pipe
        // stays open) and, once everybody waits, the stop event arrives - the process must still end
        let stalled_input = matches!(kind, StopKind::StopEvent)
            && i + 1 == n_points
            && n_points >= 3
            && base.input_mode == crate::exec::InputMode::Pipe
            && base.input.len() > 200;
        if stalled_input {
            v.stop_at_step = None;
            v.io.stop_at_input_byte = None;
            v.io.stall_at = Some(64 + rng.below(base.input.len() as u64 - 64));
        }
        let r = ex.exec(&v);
        if stalled_input {
            ex.fault("input_stalls_then_stop_event");
            let stopped_while_stalled = r.outcome.probes.get("stop_event_while_input_stalled").copied().unwrap_or(0) > 0;
            if stopped_while_stalled && r.outcome.deadlock.is_some() {
                out.fail = Some(Fail::new(
                    "early-stop",
                    "stop-event-while-input-stalled",
                    format!(
                        "the input stalled after {} bytes (pipe still open); when every thread was waiting the stop event arrived (the store the signal handler performs) and nobody reacted: {} [cmd: {}]",
                        v.io.stall_at.unwrap_or(0),
                        r.outcome.deadlock.clone().unwrap_or_default(),
                        v.cmdline()
                    ),
                ));
                return out;
            }
            if !stopped_while_stalled && r.outcome.deadlock.as_deref().map_or(false, |d| d.contains("waits Never")) {
                // everybody waits for input that does not come and no stop event was delivered (the program has
                // not registered a stop flag at that point): waiting is what it should do
                ex.probe("input_stalled_without_stop_event");
                continue;
            }
            if let Some(f) = check_orderly(&r) {
                out.fail = Some(f);
                return out;
            }
            continue;
        }
        if let StopKind::StdoutFails { .. } = kind {
            ex.probe(match r.io.stdout_failed_writes_first_thread {
                0 => "stdout_failed_writes_by_producer=0",
                1 => "stdout_failed_writes_by_producer=1",
                2 => "stdout_failed_writes_by_producer=2",
                3..=4 => "stdout_failed_writes_by_producer=3..4",
                _ => "stdout_failed_writes_by_producer>4",
            });
            let n = r.io.stdout_failed_writes;
            ex.probe(match n {
                0 => "stdout_failed_writes=0",
                1 => "stdout_failed_writes=1",
                2 => "stdout_failed_writes=2",
                3..=4 => "stdout_failed_writes=3..4",
                5..=8 => "stdout_failed_writes=5..8",
                9..=32 => "stdout_failed_writes=9..32",
                _ => "stdout_failed_writes>32",
            });
        }
        if let StopKind::StdoutFails { .. } = kind {
            // Bounded reaction: a closed stdout must be NOTICED. The producer (view / writer) runs into the
            // failure again with every batch it prints; the tool reacts by reporting a fatal error, which
            // makes the collector raise the stop flag. How many batches go by before the collector gets to
            // run is a matter of scheduling (the analysis loop does not stop by itself), so the number of
            // failed writes is not bounded by a constant under an adversarial schedule - but a run in which
            // a write failed and NO fatal is ever reported and the stop flag is never raised has not
            // noticed at all: on an endless input it would never end.
            // (only for output that is produced while the input is processed: views and filtered data; the
            // report and the statistics are printed once, at the end)
            let streaming = !v.argv.iter().any(|a| a == "check");
            let noticed = oracle::has_fatal(&r.stderr) || r.io.input_bytes_after_stop.is_some();
            // a view prints batch by batch: its first failed write already counts; the writer flushes at the
            // end of a small run (nothing left to stop then): only repeated failures count for it
            let threshold = if v.argv.iter().any(|a| a == "view") { 1 } else { 3 };
            if streaming && r.io.stdout_failed_writes >= threshold && !noticed {
                out.fail = Some(Fail::new(
                    "early-stop",
                    "keeps-writing-to-failed-stdout",
                    format!(
                        "{} writes to stdout failed (first at byte {:?}) and the failure was never noticed: no fatal error reported, stop flag never raised [cmd: {}]",
                        r.io.stdout_failed_writes,
                        v.io.stdout_fail_at,
                        v.cmdline()
                    ),
                ));
                return out;
            }
        }
        if let Some(f) = reaction_bound(ex, &r, &v) {
            out.fail = Some(f);
            return out;
        }
        if r.outcome.stop_injected_at.is_some() {
            let full = r.outcome.probes.get("send_blocked_full_queue").copied().unwrap_or(0);
            if full > 0 {
                ex.probe("stop_event_in_run_with_full_queue");
            }
        }
        if let Some(mut f) = verdict(&r, &v) {
            f.message = format!(
                "{} [stop point: step {:?} / input byte {:?} / stdout byte {:?} of reference steps={} stdout={}]",
                f.message, v.stop_at_step, v.io.stop_at_input_byte, v.io.stdout_fail_at, steps, out_len
            );
            out.fail = Some(f);
            return out;
        }
    }
    out
}

/// C17 on an input that never ends: the stop condition is the only way out.
fn run_endless(ex: &mut Executor, base: &ExecSpec, allowed_status: &[i32], label: &str) -> TrialOutcome {
    let r = ex.exec(base);
    ex.fault("input_that_never_ends");
    if base.io.stop_at_input_byte.is_some() && r.outcome.stop_injected_at.is_some() {
        ex.fault("stop_event_at_input_byte_k");
    }
    let mut out = TrialOutcome {
        nontrivial: r.outcome.threads >= 3,
        key: case_key(&base.input, &r),
        labels: vec![label.to_string()],
        ..Default::default()
    };
    if r.outcome.budget_exceeded || r.end == crate::exec::EndKind::Timeout {
        out.fail = Some(Fail::new(
            "early-stop",
            "never-ends-on-input-that-never-ends",
            format!(
                "the run did not end within its budget of decision steps ({} steps taken, stop event injected at step {:?}) on an input that keeps coming ({} input bytes read, stop flag seen set: {}) [cmd: {}]",
                r.outcome.steps,
                r.outcome.stop_injected_at,
                r.io.input_bytes,
                r.io.input_bytes_after_stop.is_some(),
                base.cmdline()
            ),
        ));
        return out;
    }
    if let Some(f) = check_orderly(&r) {
        out.fail = Some(f);
        return out;
    }
    if !allowed_status.contains(&r.status) {
        out.fail = Some(Fail::new("exit-status", "exit-status-set", format!("exit status {} not in {:?} [cmd: {}]", r.status, allowed_status, base.cmdline())));
        return out;
    }
    ex.probe(match r.outcome.steps {
        0..=999 => "endless_input_run_ended_within_1k_steps",
        1000..=9999 => "endless_input_run_ended_within_10k_steps",
        _ => "endless_input_run_ended_within_budget",
    });
    out.fail = reaction_bound(ex, &r, base);
    out
}

/// Offsets quoted as `ending at 0x...` in a frame message.
fn quoted_end(text: &str) -> Option<u64> {
    let i = text.find("ending at 0x")?;
    let hex: String = text[i + 12..].chars().take_while(|c| c.is_ascii_hexdigit()).collect();
    u64::from_str_radix(&hex, 16).ok()
}

fn run_truncate(
    ex: &mut Executor,
    full: &ExecSpec,
    cuts: &[u64],
    allowed_status: &[i32],
    rows_mode: bool,
    label: &str,
) -> TrialOutcome {
    use itsgen::walker::walk;
    let ru = ex.exec(full);
    let mut out = TrialOutcome {
        nontrivial: ru.outcome.threads >= 2,
        key: case_key(&full.input, &ru),
        labels: vec![label.to_string()],
        ..Default::default()
    };
    if let Some(f) = check_orderly(&ru) {
        out.fail = Some(f);
        return out;
    }
    if oracle::has_fatal(&ru.stderr) {
        // A fatal input error in the untruncated run (e.g. an offset-to-next out of range further on): the
        // collector ignores what arrives after it, so which findings of the earlier packets were counted
        // depends on scheduling (known finding, C15) - there is no reference to compare prefixes with.
        out.nontrivial = false;
        out.labels.push("excluded:fatal-in-untruncated-run".into());
        return out;
    }
    let u_errs = oracle::error_msgs(&ru.stderr);
    let u_rows: Vec<String> = ru.stdout_str().lines().map(|l| l.to_string()).collect();
    for &k in cuts {
        let mut v = full.clone();
        v.io.eof_at = Some(k);
        let r = ex.exec(&v);
        ex.fault("input_eof_at_byte_k");
        let tag = |mut f: Fail| {
            f.message = format!("{} [input cut at byte {k} of {}]", f.message, full.input.len());
            f
        };
        if let Some(f) = check_orderly(&r) {
            out.fail = Some(tag(f));
            return out;
        }
        if !allowed_status.contains(&r.status) {
            out.fail = Some(tag(Fail::new(
                "exit-status",
                "exit-status-set",
                format!("exit status {} not in {:?}", r.status, allowed_status),
            )));
            return out;
        }
        let cut_input = &full.input[..(k as usize).min(full.input.len())];
        let w = walk(cut_input);
        // start of the incomplete final packet (= end of the last complete one)
        let boundary: u64 = w
            .pkts
            .iter()
            .filter(|p| p.complete)
            .map(|p| (p.off + p.rdh.offset_next as usize) as u64)
            .max()
            .unwrap_or(0);
        // Where offset-to-next and memory size of a packet disagree, the reader (payload mode) consumes bytes by
        // memory size but counts positions by offset: the walker's boundaries (by offset) are then not where
        // the program's reading stands. The boundary oracles need them to agree (`framed`); the comparison of
        // prefix findings only needs that no complete packet reaches beyond its offset (`contained`).
        let framed = w.pkts.iter().filter(|p| p.complete).all(|p| p.rdh.memory_size == p.rdh.offset_next);
        let contained = w.pkts.iter().filter(|p| p.complete).all(|p| p.rdh.memory_size <= p.rdh.offset_next);
        if !framed && !out.labels.iter().any(|l| l == "cut:offset-and-memory-size-disagree") {
            out.labels.push("cut:offset-and-memory-size-disagree".into());
        }
        if framed && w.end == itsgen::walker::WalkEnd::Clean {
            // the cut falls exactly between two packets: nothing is incomplete, so nothing may be reported
            // at or behind the end of the last packet
            if let Some(e) = oracle::error_msgs(&r.stderr).iter().find(|e| e.offset.map_or(false, |o| o >= boundary)) {
                out.fail = Some(tag(Fail::new(
                    "truncation",
                    "error-at-clean-end-of-input",
                    format!("the input ends exactly at a packet boundary ({boundary:#X}) but a message is reported there: {}", clip(&e.text)),
                )));
                return out;
            }
        }
        if rows_mode {
            // view rows of the truncated run are a prefix of the full run's rows
            let rows: Vec<String> = r.stdout_str().lines().map(|l| l.to_string()).collect();
            let n = rows.len().min(u_rows.len());
            if rows.len() > u_rows.len() || rows[..n] != u_rows[..n] {
                let idx = (0..n).find(|&i| rows[i] != u_rows[i]).unwrap_or(n);
                out.fail = Some(tag(Fail::new(
                    "truncation",
                    "view-rows-not-prefix",
                    format!(
                        "view rows of the truncated run are not a prefix of the full run's rows (first difference at row {idx}: `{}` vs `{}`)",
                        rows.get(idx).map(|s| clip(s)).unwrap_or_default(),
                        u_rows.get(idx).map(|s| clip(s)).unwrap_or_default()
                    ),
                )));
                return out;
            }
            // ... and no row of a complete packet before the cut is missing: every row of the full run
            // whose leading offset lies below the boundary must be there
            let row_off = |l: &str| -> Option<u64> {
                let t = l.trim_start();
                let head = t.split(':').next()?.trim();
                let head = head.strip_prefix("0x").or_else(|| head.strip_prefix("0X")).unwrap_or(head);
                if head.is_empty() || head.len() > 12 || !head.chars().all(|c| c.is_ascii_hexdigit()) {
                    return None;
                }
                u64::from_str_radix(head, 16).ok()
            };
            let need = u_rows
                .iter()
                .enumerate()
                .filter(|(_, l)| row_off(l).map_or(false, |o| o < boundary))
                .map(|(i, _)| i + 1)
                .max()
                .unwrap_or(0);
            if framed && rows.len() < need {
                out.fail = Some(tag(Fail::new(
                    "truncation",
                    "view-rows-missing",
                    format!(
                        "the truncated run prints {} rows; the full run's rows for complete packets before the cut (offsets < {boundary:#X}) number {need}",
                        rows.len()
                    ),
                )));
                return out;
            }
            continue;
        }
        let t_errs = oracle::error_msgs(&r.stderr);
        // whatever is reported about the incomplete final packet is reported at a position that exists: inside
        // what was read of the input (C07's clause, on the inputs of this property)
        // (the reader's own [E100] / [E101] name the position at which the packet they could not read would have
        // ended - the next RDH's position; the repository's test `check_sanity_issue45` pins that)
        let reader_side = |e: &oracle::ErrMsg| e.codes.first().map_or(false, |c| c == "E100" || c == "E101");
        // (only where offset-to-next and memory size agree for every RDH that was read, the cut packet's included: a
        // payload-loading read follows the memory size while positions follow the offset-to-next - with a memory size
        // of 65 and an offset of 224 the bytes read as the next RDH are reported at 0xE0 wherever they came from)
        let framed_all = w.pkts.iter().all(|p| p.rdh.memory_size == p.rdh.offset_next);
        if !framed_all {
            ex.probe("beyond_end_oracle_skipped_offset_and_memory_size_disagree");
        }
        if let Some(e) = t_errs.iter().filter(|_| framed_all).find(|e| !e.text.starts_with("FATAL") && !reader_side(e) && e.offset.map_or(false, |o| o >= k.max(1))) {
            out.fail = Some(tag(Fail::new(
                "truncation",
                "message-offset-beyond-the-end-of-input",
                format!("a message names an offset at or beyond the end of the input ({k:#X}): {}", clip(&e.text)),
            )));
            return out;
        }
        let before = |e: &oracle::ErrMsg| -> bool {
            match e.offset {
                Some(o) => o < boundary && quoted_end(&e.text).map_or(true, |q| q < boundary),
                None => false,
            }
        };
        let a: Vec<&str> = t_errs.iter().filter(|e| before(e)).map(|e| e.text.as_str()).collect();
        let b: Vec<&str> = u_errs.iter().filter(|e| before(e)).map(|e| e.text.as_str()).collect();
        if contained && a != b {
            out.fail = Some(tag(Fail::new(
                "truncation",
                "prefix-findings-differ",
                format!(
                    "findings for the complete packets before the cut (offsets < {boundary:#X}) differ: {} vs {} messages; {}",
                    a.len(),
                    b.len(),
                    first_diff(&b.join("\n"), &a.join("\n"))
                ),
            )));
            return out;
        }
        // everything else must concern the incomplete final packet (offset >= boundary) or be a
        // message without position about the end of input
        for e in &t_errs {
            if let Some(o) = e.offset {
                if o < boundary && !before(e) {
                    // frame message starting before the boundary and ending after it: concerns the cut
                    continue;
                }
                let _ = o;
            }
        }
    }
    out
}

fn run_stats_truth(ex: &mut Executor, spec: &ExecSpec, analysed: bool, label: &str) -> TrialOutcome {
    use itsgen::walker::walk;
    let r = ex.exec(spec);
    let w = walk(&spec.input);
    if let Some(rep) = spec.input_repeat.filter(|n| *n > 1) {
        // a stream of several GiB (the input delivered `rep` times in a row): the counters that grow with
        // the stream are the walker's values of one delivery times `rep`
        let mut out = TrialOutcome {
            nontrivial: r.outcome.threads >= 3,
            key: case_key(&spec.input, &r),
            labels: vec![label.to_string()],
            ..Default::default()
        };
        ex.fault("stream_beyond_4_GiB");
        if let Some(f) = check_orderly(&r) {
            out.fail = Some(f);
            return out;
        }
        let t = itsgen::walker::truth_stats(&w, crate::t_stream::filter_of_argv(&spec.argv));
        let st = r.stats_file.as_ref().and_then(|b| oracle::parse_stats(b, &spec.stats_ext));
        let Some(st) = st else {
            out.fail = Some(Fail::new("statistics", "no-statistics-file", format!("no statistics file [cmd: {}]", spec.cmdline())));
            return out;
        };
        for (path, want) in [
            (["rdh_stats", "rdhs_seen"], t.rdhs_seen * rep),
            (["rdh_stats", "payload_size"], t.payload_size * rep),
            (["rdh_stats", "hbfs_seen"], if analysed { t.hbfs * rep } else { 0 }),
        ] {
            let got = oracle::stats_u64(&st, &path);
            if got != Some(want) {
                out.fail = Some(Fail::new(
                    "statistics",
                    &format!("huge-stream-{}", path[1]),
                    format!(
                        "statistics file has {} = {got:?}, the stream ({} packets, {} payload bytes, delivered {rep} times) has {want} [cmd: {}]",
                        path[1],
                        t.rdhs_seen,
                        t.payload_size,
                        spec.cmdline()
                    ),
                ));
                return out;
            }
        }
        return out;
    }
    let mut out = TrialOutcome {
        nontrivial: w.pkts.len() >= 2 && r.outcome.threads >= 3,
        key: case_key(&spec.input, &r),
        labels: vec![label.to_string()],
        ..Default::default()
    };
    if let Some(f) = check_orderly(&r) {
        out.fail = Some(f);
        return out;
    }
    if oracle::log_messages(&r.stderr).iter().any(|m| m.level == "ERROR" && m.text.contains("nknown system ID")) {
        // the first analysed packet (under a filter: the first matching one) carries a system ID the tool does
        // not know: a documented fatal of input detection, not a statistics matter
        out.nontrivial = false;
        out.labels.push("excluded:unknown-system-id".into());
        return out;
    }
    if oracle::has_fatal(&r.stderr) {
        out.fail = Some(Fail::new(
            "statistics",
            "unexpected-fatal",
            format!("well-framed input produced a fatal: {}", clip(&r.stderr_str())),
        ));
        return out;
    }
    let f = crate::t_stream::filter_of_argv(&spec.argv);
    let st = r.stats_file.as_ref().and_then(|b| oracle::parse_stats(b, &spec.stats_ext));
    let st = match st {
        Some(s) => s,
        None => {
            out.fail = Some(Fail::new("statistics", "stats-file-missing", "no (parsable) statistics file was written"));
            return out;
        }
    };
    if let Some(mut x) = crate::t_stream::check_stats_truth(&st, &w, f, analysed) {
        x.message = format!("{} [cmd: {} ; {:?}]", x.message, spec.cmdline(), spec.input_mode);
        out.fail = Some(x);
        return out;
    }
    // the report table, when printed, shows the same totals
    let t = itsgen::walker::truth_stats(&w, f);
    for (name, want) in [("Total RDHs", t.rdhs_seen), ("Total HBFs", if analysed { t.hbfs } else { 0 })] {
        if let Some(got) = oracle::report_value(&r.stdout, name) {
            if got != want {
                out.fail = Some(Fail::new(
                    "statistics",
                    &format!("report-{}", name.replace(' ', "-")),
                    format!("report shows {name} = {got}, input has {want} [cmd: {}]", spec.cmdline()),
                ));
                return out;
            }
        }
    }
    if let Some(n) = oracle::report_total_errors(&r.stdout) {
        let total = oracle::stats_u64(&st, &["error_stats", "total_errors"]).unwrap_or(0);
        if n != total {
            out.fail = Some(Fail::new(
                "statistics",
                "report-Total-Errors",
                format!("report shows Total Errors {n}, statistics file has {total}"),
            ));
            return out;
        }
    }
    // the `Data size` row: 64 bytes per selected RDH plus their payload bytes, in the report's units
    {
        let fmt = |n: u64| -> String {
            match n {
                0..=1024 => format!("{n} B"),
                1025..=1_048_576 => format!("{:.2} KiB", n as f64 / 1024.0),
                1_048_577..=1_073_741_824 => format!("{:.2} MiB", n as f64 / 1_048_576.0),
                _ => format!("{:.2} GiB", n as f64 / 1_073_741_824.0),
            }
        };
        let count = if f == itsgen::walker::Filter::None { t.rdhs_seen } else { t.rdhs_filtered };
        let want = if count == 0 { fmt(0) } else { fmt(count * 64 + t.payload_size) };
        let text = oracle::strip_ansi(&String::from_utf8_lossy(&r.stdout));
        if let Some(line) = text.lines().find(|l| l.contains("Data size")) {
            let cell: String = line.splitn(2, "Data size").nth(1).unwrap_or("").trim().to_string();
            if !cell.starts_with(&want) {
                out.fail = Some(Fail::new(
                    "statistics",
                    "report-Data-size",
                    format!(
                        "report shows Data size `{}`; {count} selected RDHs of 64 bytes and {} payload bytes make {want} [cmd: {}]",
                        cell.chars().take(24).collect::<String>().trim_end(),
                        t.payload_size,
                        spec.cmdline()
                    ),
                ));
                return out;
            }
            ex.probe("c14_report_data_size_checked");
        }
    }
    // the FEE IDs the report lists are the lowest ones, and what it leaves out is counted: listed + `K more` == all
    if let Some((listed, more)) = oracle::report_fee_ids(&r.stdout) {
        // (the report shows them in ascending order)
        let mut truth: Vec<u64> = t.fee_ids.iter().map(|f| *f as u64).collect();
        truth.sort_unstable();
        let ok = listed.len() as u64 + more == truth.len() as u64 && truth.starts_with(&listed);
        if !ok {
            out.fail = Some(Fail::new(
                "statistics",
                "report-FEE-IDs-seen",
                format!(
                    "report lists {} FEE IDs and `... {more} more`; the input has {} distinct FEE IDs (first listed {:?}, first in the input {:?}) [cmd: {}]",
                    listed.len(),
                    truth.len(),
                    listed.first(),
                    truth.first(),
                    spec.cmdline()
                ),
            ));
            return out;
        }
        if more > 0 {
            ex.probe("c14_report_fee_id_list_cut");
        }
    }
    out
}

fn run_markers(ex: &mut Executor, spec: &ExecSpec, markers: &[u64], label: &str) -> TrialOutcome {
    let r = ex.exec(spec);
    let mut out = TrialOutcome {
        nontrivial: !markers.is_empty() && r.outcome.threads >= 4,
        key: case_key(&spec.input, &r),
        labels: vec![label.to_string()],
        ..Default::default()
    };
    if let Some(f) = check_orderly(&r) {
        out.fail = Some(f);
        return out;
    }
    let errs = oracle::error_msgs(&r.stderr);
    let mut want: Vec<u64> = markers.to_vec();
    // RDHs of the input that the sanity model rejects (a wrong header size, the priority bit, reserved bits:
    // fields that change nothing about the packet) are reported at the RDH; the words of that packet stay
    // where they are
    let mut rdh_faults: Vec<u64> = Vec::new();
    {
        let w = itsgen::walker::walk(&spec.input);
        let mut first_version: std::collections::BTreeMap<u8, u8> = Default::default();
        for p in &w.pkts {
            let fv = *first_version.entry(p.rdh.link_id).or_insert(p.rdh.version);
            if itsgen::models::rdh_sanity_fails(&p.rdh, fv, true) {
                rdh_faults.push(p.off as u64);
            }
        }
    }
    if !rdh_faults.is_empty() {
        ex.fault("rdh_sanity_fault_on_a_packet_with_planted_words");
    }
    want.extend(rdh_faults.iter().copied());
    want.sort_unstable();
    want.dedup();
    let mut got: Vec<u64> = errs.iter().filter_map(|e| e.offset).collect();
    got.sort_unstable();
    got.dedup();
    let tagm = |m: String| format!("{m} [cmd: {}]", spec.cmdline());
    if got != want {
        let missing: Vec<String> = want.iter().filter(|o| !got.contains(o)).map(|o| format!("{o:#X}")).collect();
        let extra: Vec<String> = got.iter().filter(|o| !want.contains(o)).map(|o| format!("{o:#X}")).collect();
        let first_extra = errs.iter().find(|e| e.offset.map_or(false, |o| !want.contains(&o))).map(|e| clip(&e.text));
        out.fail = Some(Fail::new(
            "word-cutting",
            "marker-offsets",
            tagm(format!(
                "planted words at {} offsets; errors at {} offsets; not reported: {missing:?}; reported elsewhere: {extra:?} (first: {first_extra:?})",
                want.len(),
                got.len()
            )),
        ));
        return out;
    }
    for e in &errs {
        if e.offset.is_none() {
            out.fail = Some(Fail::new("word-cutting", "message-without-offset", tagm(clip(&e.text))));
            return out;
        }
    }
    // each marker carries the unrecognised-ID / data-word-ID family
    for o in &rdh_faults {
        let codes: Vec<&String> = errs.iter().filter(|e| e.offset == Some(*o)).flat_map(|e| e.codes.iter()).collect();
        if !codes.iter().any(|c| c.as_str() == "E10") {
            out.fail = Some(Fail::new(
                "word-cutting",
                "rdh-fault-code",
                tagm(format!("RDH at {o:#X} fails the sanity model; reported with codes {codes:?}, expected E10")),
            ));
            return out;
        }
    }
    for o in markers {
        let codes: Vec<&String> = errs.iter().filter(|e| e.offset == Some(*o)).flat_map(|e| e.codes.iter()).collect();
        if !codes.iter().any(|c| c.as_str() == "E991" || c.as_str() == "E70") {
            out.fail = Some(Fail::new(
                "word-cutting",
                "marker-code",
                tagm(format!("planted word at {o:#X} reported with codes {codes:?}, expected E991/E70")),
            ));
            return out;
        }
    }
    out
}

fn run_excess_padding(
    ex: &mut Executor,
    spec: &ExecSpec,
    rdh_off: u64,
    payload_end: u64,
    only: bool,
    e30_at: Option<u64>,
    second: Option<(u64, u64)>,
    label: &str,
) -> TrialOutcome {
    let r = ex.exec(spec);
    ex.fault("excess_padding_payload");
    if second.is_some() {
        ex.fault("excess_padding_payload");
    }
    let mut out = TrialOutcome {
        nontrivial: r.outcome.threads >= 4,
        key: case_key(&spec.input, &r),
        labels: vec![label.to_string()],
        ..Default::default()
    };
    if let Some(f) = check_orderly(&r) {
        out.fail = Some(f);
        return out;
    }
    let errs = oracle::error_msgs(&r.stderr);
    let tagm = |m: String| format!("{m} [cmd: {}]", spec.cmdline());
    let pe: Vec<&oracle::ErrMsg> = errs.iter().filter(|e| e.text.contains("Payload error following RDH")).collect();
    let mut want_at: Vec<u64> = vec![rdh_off];
    if let Some((o2, _)) = second {
        want_at.push(o2);
    }
    want_at.sort_unstable();
    let got_at: Vec<u64> = pe.iter().filter_map(|e| e.offset).collect();
    if got_at != want_at {
        out.fail = Some(Fail::new(
            "padding",
            "payload-error-count-or-offset",
            tagm(format!(
                "expected exactly one `Payload error following RDH` at each of {want_at:#X?}; got {} at {:?}",
                pe.len(),
                pe.iter().map(|e| e.offset).collect::<Vec<_>>()
            )),
        ));
        return out;
    }
    let inside = |o: u64| (o > rdh_off && o < payload_end) || second.map_or(false, |(a, b)| o > a && o < b);
    if let Some(e) = errs.iter().find(|e| e.offset.map_or(false, inside)) {
        out.fail = Some(Fail::new(
            "padding",
            "message-inside-skipped-payload",
            tagm(format!("word-level message inside the skipped payload: {}", clip(&e.text))),
        ));
        return out;
    }
    // ([E81]: a calibration-word index sequence that began inside the skipped payload is, rightly, reported
    // when it continues in the next packet - the words that started it were never seen)
    let counted = errs.iter().filter(|e| !e.codes.iter().any(|c| c == "E81")).count();
    if only && counted != want_at.len() {
        let other = errs
            .iter()
            .find(|e| !e.text.contains("Payload error following RDH") && !e.codes.iter().any(|c| c == "E81"))
            .map(|e| clip(&e.text));
        out.fail = Some(Fail::new(
            "padding",
            "state-not-reset",
            tagm(format!(
                "after the skipped payload the next packet must be judged from the initial state (no further error); got {} messages, e.g. {other:?}",
                errs.len()
            )),
        ));
        return out;
    }
    if let Some(o) = e30_at {
        let hit = errs.iter().any(|e| e.offset == Some(o) && e.codes.iter().any(|c| c == "E30"));
        if !hit {
            out.fail = Some(Fail::new(
                "padding",
                "state-not-reset-ddw0",
                tagm(format!("after the reset the DDW0 at {o:#X} must be judged as the expected IHW ([E30]); messages there: {:?}",
                    errs.iter().filter(|e| e.offset == Some(o)).map(|e| e.codes.clone()).collect::<Vec<_>>())),
            ));
            return out;
        }
    }
    out
}

fn run_rdh_walk(ex: &mut Executor, spec: &ExecSpec, e10: &[u64], e11: &[u64], running: bool, label: &str) -> TrialOutcome {
    let r = ex.exec(spec);
    let mut out = TrialOutcome {
        nontrivial: r.outcome.threads >= 4 && spec.input.len() >= 3 * 64,
        key: case_key(&spec.input, &r),
        labels: vec![label.to_string()],
        ..Default::default()
    };
    if let Some(f) = check_orderly(&r) {
        out.fail = Some(f);
        return out;
    }
    let errs = oracle::error_msgs(&r.stderr);
    let offs = |code: &str| -> Vec<u64> {
        let mut v: Vec<u64> = errs
            .iter()
            .filter(|e| e.codes.first().map_or(false, |c| c == code))
            .filter_map(|e| e.offset)
            .collect();
        v.sort_unstable();
        v
    };
    let tagm = |m: String| format!("{m} [cmd: {}]", spec.cmdline());
    let cmp = |code: &str, want: &[u64], out: &mut TrialOutcome| -> bool {
        let got = offs(code);
        let mut want: Vec<u64> = want.to_vec();
        want.sort_unstable();
        if got != want {
            let missing: Vec<String> = want.iter().filter(|o| !got.contains(o)).take(4).map(|o| format!("{o:#X}")).collect();
            let extra: Vec<String> = got.iter().filter(|o| !want.contains(o)).take(4).map(|o| format!("{o:#X}")).collect();
            let (site, what) = if !missing.is_empty() {
                (format!("{code}-not-reported"), format!("RDHs the documented rules flag but the tool did not: {missing:?}"))
            } else {
                (format!("{code}-reported-without-rule"), format!("RDHs reported although no documented rule is violated: {extra:?}"))
            };
            let sample = errs.iter().find(|e| e.offset.map_or(false, |o| extra.contains(&format!("{o:#X}")))).map(|e| clip(&e.text));
            out.fail = Some(Fail::new("rdh-rules", &site, tagm(format!("[{code}] {what}; model expects {} RDHs, tool reports {} (e.g. {sample:?})", want.len(), got.len()))));
            return false;
        }
        true
    };
    if !cmp("E10", e10, &mut out) {
        return out;
    }
    let want11: &[u64] = if running { e11 } else { &[] };
    if !cmp("E11", want11, &mut out) {
        return out;
    }
    // nothing else may be reported for RDH-only packets
    if let Some(e) = errs.iter().find(|e| e.codes.first().map_or(true, |c| c != "E10" && c != "E11")) {
        out.fail = Some(Fail::new("rdh-rules", "unexpected-message", tagm(clip(&e.text))));
    }
    out
}

fn run_fault(
    ex: &mut Executor,
    runs: &[(usize, ExecSpec)],
    expects: &[ExpectRec],
    silent_in_sanity: bool,
    silent_no_target: bool,
    exit_code: i32,
    fault: &str,
) -> TrialOutcome {
    let mut out = TrialOutcome { labels: vec![fault.to_string()], nontrivial: true, ..Default::default() };
    ex.fault(&format!("stream_fault:{fault}"));
    for (i, (mode, spec)) in runs.iter().enumerate() {
        let r = ex.exec(spec);
        if i == 0 {
            out.key = case_key(&spec.input, &r);
        }
        if let Some(f) = check_orderly(&r) {
            out.fail = Some(f);
            return out;
        }
        let is_sanity = *mode <= 1;
        let target_its = *mode == 1 || *mode >= 3;
        let target_stave = *mode == 4;
        let errs = oracle::error_msgs(&r.stderr);
        let cmd = spec.cmdline();
        let mut any_active = false;
        for e in expects {
            let active = (if is_sanity { e.sanity } else { e.all })
                && (!e.needs_its || target_its)
                && (!e.stave_only || target_stave);
            if !active {
                continue;
            }
            any_active = true;
            let hit = errs.iter().any(|m| {
                m.offset == Some(e.offset)
                    && e.codes.iter().any(|c| {
                        if c.is_empty() {
                            m.text.contains("Payload error following RDH")
                        } else {
                            m.codes.iter().any(|mc| mc == c)
                        }
                    })
            });
            if !hit {
                let at: Vec<String> = errs.iter().filter(|m| m.offset == Some(e.offset)).map(|m| format!("{:?}", m.codes)).collect();
                out.fail = Some(Fail::new(
                    "missed-detection",
                    &format!("{fault}:{}", e.codes.first().map(|c| if c.is_empty() { "payload-error" } else { c.as_str() }).unwrap_or("?")),
                    format!(
                        "fault `{fault}`: expected {:?} at {:#X} in `{cmd}`; messages at that offset: {at:?}; {} messages in total, first: {:?}",
                        e.codes,
                        e.offset,
                        errs.len(),
                        errs.first().map(|m| clip(&m.text))
                    ),
                ));
                return out;
            }
        }
        if any_active && r.status != exit_code {
            out.fail = Some(Fail::new(
                "missed-detection",
                &format!("{fault}:exit-status"),
                format!("fault `{fault}` detected in `{cmd}` but exit status is {} instead of {exit_code}", r.status),
            ));
            return out;
        }
        let must_be_silent = is_sanity && (silent_in_sanity || (silent_no_target && !target_its));
        if must_be_silent && (!errs.is_empty() || r.status != 0) {
            out.fail = Some(Fail::new(
                "false-alarm",
                &format!("{fault}:reported-by-check-sanity"),
                format!(
                    "fault `{fault}` is a purely stateful violation but `{cmd}` reports {} messages (status {}), first: {:?}",
                    errs.len(),
                    r.status,
                    errs.first().map(|m| clip(&m.text))
                ),
            ));
            return out;
        }
    }
    out
}

fn run_alpide(ex: &mut Executor, runs: &[AlpideRun], flags: &[u64], label: &str) -> TrialOutcome {
    let mut out = TrialOutcome { labels: vec![label.to_string()], ..Default::default() };
    const FRAME_CODES: [&str; 5] = ["E72", "E73", "E74", "E75", "E701"];
    for (i, run) in runs.iter().enumerate() {
        let r = ex.exec(&run.spec);
        if i == 0 {
            out.key = case_key(&run.spec.input, &r);
            out.nontrivial = !run.frames.is_empty() && r.outcome.threads >= 4;
        }
        if let Some(f) = check_orderly(&r) {
            out.fail = Some(f);
            return out;
        }
        // (a generated page beyond the size the offset-to-next field may describe: not well-framed, see run_custom)
        if itsgen::walker::walk(&run.spec.input).end != itsgen::walker::WalkEnd::Clean {
            out.nontrivial = false;
            out.labels.push("excluded:generated-page-beyond-the-size-limit".into());
            return out;
        }
        let muted = run.spec.argv.iter().any(|a| a == "-m");
        let errs = if muted {
            // nothing is displayed: the messages are the `reported_errors` of the statistics file
            r.stats_file
                .as_ref()
                .and_then(|b| oracle::parse_stats(b, &run.spec.stats_ext))
                .and_then(|st| st.get("error_stats").and_then(|e| e.get("reported_errors")).and_then(|v| v.as_array().cloned()))
                .unwrap_or_default()
                .iter()
                .filter_map(|x| x.as_str())
                .map(|t| oracle::parse_err_text(&oracle::strip_ansi(t)))
                .collect()
        } else {
            oracle::error_msgs(&r.stderr)
        };
        let cmd = run.spec.cmdline();
        let variant = if i == 0 { "" } else if muted { " (other pixel-hit content, muted)" } else { " (other pixel-hit content)" };
        let starts: Vec<u64> = run.frames.iter().map(|f| f.offset).collect();
        for (k, fe) in run.frames.iter().enumerate() {
            if fe.dont_care {
                continue;
            }
            // several frames can share a start when a no-data TDH keeps a frame open: judge such
            // offsets only through the last frame that starts there... they cannot: each closed
            // frame re-opens at a later TDH. Offsets are unique.
            let here: Vec<&oracle::ErrMsg> = errs
                .iter()
                .filter(|m| m.offset == Some(fe.offset))
                .filter(|m| m.codes.first().map_or(false, |c| FRAME_CODES.contains(&c.as_str())))
                .collect();
            let mut want: Vec<String> = Vec::new();
            if fe.empty {
                want.push("E701".into());
            }
            if let Some(c) = &fe.lanes_code {
                want.push(c.clone());
            }
            if let Some(c) = &fe.lane_err_code {
                want.push(c.clone());
            }
            let mut got: Vec<String> = here.iter().map(|m| m.codes[0].clone()).collect();
            got.sort();
            want.sort();
            if got != want {
                let site = if want.is_empty() {
                    "legal-frame-rejected".to_string()
                } else if got.is_empty() {
                    format!("broken-frame-accepted-{}", want.join("+"))
                } else {
                    "wrong-frame-verdict".to_string()
                };
                out.fail = Some(Fail::new(
                    "frame-verdict",
                    &site,
                    format!(
                        "frame #{k} starting at {:#X}{variant}: encoder truth expects {want:?}, tool reports {got:?} there (first: {:?}) [cmd: {cmd}]",
                        fe.offset,
                        here.first().map(|m| clip(&m.text))
                    ),
                ));
                return out;
            }
            // (muted runs drop the per-lane context - and with it the sub-codes - from the stored message:
            // known finding of C16, `mute-changes-statistics-file:alpide-lane-context`; not judged here)
            if let Some(m) = here.iter().find(|m| Some(&m.codes[0]) == fe.lane_err_code.as_ref()).filter(|_| !muted) {
                for sc in &fe.sub_codes {
                    if !m.text.contains(&format!("[{sc}]")) {
                        out.fail = Some(Fail::new(
                            "frame-verdict",
                            &format!("missing-{sc}"),
                            format!("frame #{k} at {:#X}{variant}: lane-error message lacks [{sc}]: {} [cmd: {cmd}]", fe.offset, clip(&m.text)),
                        ));
                        return out;
                    }
                }
            }
        }
        // no frame-level message anywhere else
        if let Some(m) = errs.iter().find(|m| {
            m.codes.first().map_or(false, |c| ["E73", "E74", "E75", "E701"].contains(&c.as_str()))
                && m.offset.map_or(true, |o| !starts.contains(&o))
        }) {
            out.fail = Some(Fail::new(
                "frame-verdict",
                "frame-message-not-at-frame-start",
                format!("frame-level message away from every frame start{variant}: {} [cmd: {cmd}]", clip(&m.text)),
            ));
            return out;
        }
        // readout-flag counters
        if let Some(st) = r.stats_file.as_ref().and_then(|b| oracle::parse_stats(b, &run.spec.stats_ext)) {
            let rf = oracle::stats_get(&st, &["alpide_stats", "readout_flags"]);
            let names = [
                "chip_trailers_seen",
                "busy_violations",
                "data_overrun",
                "transmission_in_fatal",
                "flushed_incomplete",
                "strobe_extended",
                "busy_transitions",
            ];
            for (j, n) in names.iter().enumerate() {
                let got = rf.and_then(|v| v.get(n)).and_then(|v| v.as_u64());
                let _ = flags;
                if got != Some(run.flags[j]) {
                    out.fail = Some(Fail::new(
                        "alpide-stats",
                        &format!("readout-flags-{n}"),
                        format!("alpide_stats.{n} = {got:?}{variant}, chip trailers of the encoder give {} [cmd: {cmd}]", run.flags[j]),
                    ));
                    return out;
                }
            }
        } else {
            out.fail = Some(Fail::new("alpide-stats", "stats-file-missing", format!("no statistics file [cmd: {cmd}]")));
            return out;
        }
    }
    out
}

fn run_custom(ex: &mut Executor, spec: &ExecSpec, expect: &CustomExpect, exit_code: i32, label: &str) -> TrialOutcome {
    let r = ex.exec(spec);
    let mut out = TrialOutcome {
        nontrivial: r.outcome.threads >= 4,
        key: case_key(&spec.input, &r),
        labels: vec![label.to_string()],
        ..Default::default()
    };
    if let Some(f) = check_orderly(&r) {
        out.fail = Some(f);
        return out;
    }
    // (a generated page can exceed what the offset-to-next field may describe - a stave frame with many hits on
    // one page: by the independent chain walk such a stream is not well-framed, the tool rightly stops there)
    if itsgen::walker::walk(&spec.input).end != itsgen::walker::WalkEnd::Clean {
        out.nontrivial = false;
        out.labels.push("excluded:generated-page-beyond-the-size-limit".into());
        return out;
    }
    let errs: Vec<oracle::ErrMsg> = crate::t_exit::shown_errors(&r);
    let cmd = spec.cmdline();
    let toml = spec.custom_checks_toml.clone().unwrap_or_default().replace('\n', "; ");
    let mk = |site: &str, m: String| Some(Fail::new("custom-checks", site, format!("{m} [cmd: {cmd}; checks: {toml}]")));
    let has = |code: &str| errs.iter().any(|e| e.codes.iter().any(|c| c == code) && e.offset.is_none());
    for (code, want) in [("E9001", expect.e9001), ("E9002", expect.e9002)] {
        if has(code) != want {
            out.fail = mk(
                &format!("{code}-{}", if want { "not-reported" } else { "reported-without-cause" }),
                format!("[{code}] expected: {want}, reported: {}", has(code)),
            );
            return out;
        }
    }
    // E10 header-ID messages exactly at the expected RDHs
    let mut got10: Vec<u64> = errs
        .iter()
        .filter(|e| e.codes.first().map_or(false, |c| c == "E10") && e.text.contains("Header ID"))
        .filter_map(|e| e.offset)
        .collect();
    got10.sort_unstable();
    let mut want10 = expect.e10_offsets.clone();
    want10.sort_unstable();
    if got10 != want10 {
        out.fail = mk(
            if got10.len() < want10.len() { "E10-version-not-reported" } else { "E10-version-reported-without-cause" },
            format!("[E10] header-ID messages at {} RDHs, expected at {}", got10.len(), want10.len()),
        );
        return out;
    }
    // E45 exactly at the expected TDHs
    let mut got45: Vec<u64> =
        errs.iter().filter(|e| e.codes.first().map_or(false, |c| c == "E45")).filter_map(|e| e.offset).collect();
    got45.sort_unstable();
    let mut want45 = expect.e45_offsets.clone();
    want45.sort_unstable();
    if got45 != want45 {
        let missing: Vec<String> = want45.iter().filter(|o| !got45.contains(o)).take(3).map(|o| format!("{o:#X}")).collect();
        let extra: Vec<String> = got45.iter().filter(|o| !want45.contains(o)).take(3).map(|o| format!("{o:#X}")).collect();
        out.fail = mk(
            if !missing.is_empty() { "E45-not-reported" } else { "E45-reported-without-cause" },
            format!("[E45] at {} TDHs, expected at {}; missing {missing:?}, unexpected {extra:?}", got45.len(), want45.len()),
        );
        return out;
    }
    // frame-level chip count / order
    for (off, code) in &expect.frame_codes {
        let hit = errs.iter().any(|e| e.offset == Some(*off) && e.text.contains(&format!("[{code}]")));
        if !hit {
            out.fail = mk(&format!("{code}-not-reported"), format!("frame at {off:#X}: no lane-error message with [{code}]"));
            return out;
        }
    }
    for off in &expect.clean_frames {
        if let Some(e) = errs.iter().find(|e| e.offset == Some(*off) && (e.text.contains("[E9004]") || e.text.contains("[E9005]"))) {
            out.fail = mk("E900x-reported-without-cause", format!("frame at {off:#X} satisfies the configured chip count/order but: {}", clip(&e.text)));
            return out;
        }
    }
    // nothing else
    let expected_any = expect.e9001
        || expect.e9002
        || !expect.e10_offsets.is_empty()
        || !expect.e45_offsets.is_empty()
        || !expect.frame_codes.is_empty();
    if !expected_any && !errs.is_empty() {
        out.fail = mk("unexpected-message", format!("no configured value differs from the data, yet: {}", clip(&errs[0].text)));
        return out;
    }
    let want_status = if expected_any { exit_code } else { 0 };
    if r.status != want_status {
        out.fail = mk("exit-status", format!("exit status {} (expected {want_status})", r.status));
    }
    out
}
