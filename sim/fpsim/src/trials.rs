//! Trials: serialisable (specs + oracle) units. A trial can be run any number of times — by the
//! shard loop, by the minimiser, and from a replay file in a fresh process — and must give the same
//! verdict each time.

use crate::exec::{ExecResult, ExecSpec};
use crate::framework::{case_key, Executor, Fail, TrialOutcome};
use crate::oracle;
use serde::{Deserialize, Serialize};
use serde_json::{json, Value};

#[derive(Serialize, Deserialize, Clone, Debug)]
pub enum Trial {
    /// C04: the run ends on its own, orderly, with an allowed exit status.
    Orderly { spec: ExecSpec, allowed_status: Vec<i32>, label: String },
    /// C05: outputs of every variant equal those of the canonical-schedule run.
    Sched { base: ExecSpec, variants: Vec<ExecSpec>, label: String },
    /// C01: conforming data: zero errors, no ERROR line, exit 0.
    Conform { spec: ExecSpec, label: String },
}

/// Run-time invariants that hold for every execution of every trial.
pub fn check_orderly(r: &ExecResult) -> Option<Fail> {
    Fail::from_disorder(r)
}

pub struct Observed {
    pub status: i32,
    pub errors: Vec<String>,
    pub warns: Vec<String>,
    pub stdout: String,
    pub stats: Option<Vec<u8>>,
    pub out_file: Option<Vec<u8>>,
}

pub fn observe(r: &ExecResult) -> Observed {
    let msgs = oracle::log_messages(&r.stderr);
    let mut warns: Vec<String> =
        msgs.iter().filter(|m| m.level == "WARN").map(|m| m.text.clone()).collect();
    warns.sort();
    Observed {
        status: r.status,
        errors: msgs.iter().filter(|m| m.level != "WARN").map(|m| format!("{} {}", m.level, m.text)).collect(),
        warns,
        stdout: oracle::normalise_stdout(&r.stdout),
        stats: r.stats_file.clone(),
        out_file: r.out_file.clone(),
    }
}

fn first_diff(a: &str, b: &str) -> String {
    let la: Vec<&str> = a.lines().collect();
    let lb: Vec<&str> = b.lines().collect();
    for i in 0..la.len().max(lb.len()) {
        let x = la.get(i).copied().unwrap_or("<missing>");
        let y = lb.get(i).copied().unwrap_or("<missing>");
        if x != y {
            return format!("line {i}: canonical `{}` vs `{}`", clip(x), clip(y));
        }
    }
    "no line differs (length?)".into()
}

fn clip(s: &str) -> String {
    if s.len() > 160 {
        let mut e = 160;
        while !s.is_char_boundary(e) {
            e -= 1;
        }
        format!("{}...", &s[..e])
    } else {
        s.to_string()
    }
}

/// Compare a run against the reference run: everything the property lists must be identical.
pub fn compare_runs(reference: &Observed, other: &Observed) -> Option<Fail> {
    if reference.status != other.status {
        return Some(Fail::new(
            "order-dependence",
            "exit-status",
            format!("exit status {} (canonical schedule) vs {}", reference.status, other.status),
        ));
    }
    if reference.errors != other.errors {
        let a = reference.errors.join("\n");
        let b = other.errors.join("\n");
        return Some(Fail::new(
            "order-dependence",
            "stderr-error-lines",
            format!(
                "error messages differ ({} vs {} messages): {}",
                reference.errors.len(),
                other.errors.len(),
                first_diff(&a, &b)
            ),
        ));
    }
    if reference.stats != other.stats {
        let a = String::from_utf8_lossy(reference.stats.as_deref().unwrap_or(b"<none>")).into_owned();
        let b = String::from_utf8_lossy(other.stats.as_deref().unwrap_or(b"<none>")).into_owned();
        return Some(Fail::new(
            "order-dependence",
            "statistics-file",
            format!("statistics file differs: {}", first_diff(&a, &b)),
        ));
    }
    if reference.stdout != other.stdout {
        return Some(Fail::new(
            "order-dependence",
            "stdout",
            format!("stdout differs: {}", first_diff(&reference.stdout, &other.stdout)),
        ));
    }
    if reference.warns != other.warns {
        return Some(Fail::new(
            "order-dependence",
            "stderr-warn-multiset",
            format!(
                "WARN messages differ as a multiset: {}",
                first_diff(&reference.warns.join("\n"), &other.warns.join("\n"))
            ),
        ));
    }
    if reference.out_file != other.out_file {
        return Some(Fail::new("order-dependence", "output-file", "filtered output file differs"));
    }
    None
}

impl Trial {
    pub fn run(&self, ex: &mut Executor) -> TrialOutcome {
        match self {
            Trial::Orderly { spec, allowed_status, label } => {
                let r = ex.exec(spec);
                let mut out = TrialOutcome {
                    nontrivial: r.outcome.threads >= 2,
                    key: case_key(&spec.input, &r),
                    labels: vec![label.clone()],
                    ..Default::default()
                };
                if let Some(f) = check_orderly(&r) {
                    out.fail = Some(f);
                } else if !allowed_status.contains(&r.status) {
                    out.fail = Some(Fail::new(
                        "exit-status",
                        "exit-status-set",
                        format!("exit status {} not in {:?}", r.status, allowed_status),
                    ));
                }
                out
            }
            Trial::Sched { base, variants, label } => {
                let r0 = ex.exec(base);
                let mut out = TrialOutcome {
                    nontrivial: r0.outcome.threads >= 4,
                    key: case_key(&base.input, &r0),
                    labels: vec![label.clone()],
                    ..Default::default()
                };
                if let Some(f) = check_orderly(&r0) {
                    out.fail = Some(f);
                    return out;
                }
                let o0 = observe(&r0);
                if oracle::has_fatal(&r0.stderr) {
                    // excluded by the statement (fatal input error): nothing to compare
                    out.nontrivial = false;
                    out.labels.push("excluded:fatal".into());
                    return out;
                }
                let mut arrivals = std::collections::BTreeSet::new();
                arrivals.insert(r0.outcome.arrival_hash);
                for v in variants {
                    let mut v = v.clone();
                    v.expected_steps = r0.outcome.steps.max(16);
                    v.step_budget = r0.outcome.steps.saturating_mul(50) + 5000;
                    if let crate::exec::PolicySpec::Starve { victim, from, window } = v.policy.clone() {
                        let s = r0.outcome.steps.max(2);
                        v.policy = crate::exec::PolicySpec::Starve {
                            victim,
                            from: from % s,
                            window: window % s + 10,
                        };
                    }
                    let r = ex.exec(&v);
                    arrivals.insert(r.outcome.arrival_hash);
                    if let Some(f) = check_orderly(&r) {
                        out.fail = Some(f);
                        return out;
                    }
                    if let Some(f) = compare_runs(&o0, &observe(&r)) {
                        out.fail = Some(f);
                        return out;
                    }
                }
                if arrivals.len() >= 2 {
                    ex.probe("case_with_2plus_collector_arrival_orders");
                }
                out
            }
            Trial::Conform { spec, label } => {
                let r = ex.exec(spec);
                let mut out = TrialOutcome {
                    nontrivial: r.outcome.threads >= 4,
                    key: case_key(&spec.input, &r),
                    labels: vec![label.clone()],
                    ..Default::default()
                };
                if let Some(f) = check_orderly(&r) {
                    out.fail = Some(f);
                    return out;
                }
                out.fail = conform_verdict(&r, spec);
                out
            }
        }
    }

    pub fn specs_mut(&mut self) -> Vec<&mut ExecSpec> {
        match self {
            Trial::Orderly { spec, .. } => vec![spec],
            Trial::Sched { base, variants, .. } => {
                let mut v = vec![base];
                v.extend(variants.iter_mut());
                v
            }
            Trial::Conform { spec, .. } => vec![spec],
        }
    }

    /// May trailing packets of the input be dropped while minimising?
    pub fn input_shrinkable(&self) -> bool {
        matches!(self, Trial::Orderly { .. } | Trial::Sched { .. })
    }

    /// Drop variants one at a time (for trials that have several).
    pub fn drop_candidates(&self) -> Vec<Trial> {
        match self {
            Trial::Sched { base, variants, label } if variants.len() > 1 => (0..variants.len())
                .map(|i| Trial::Sched {
                    base: base.clone(),
                    variants: vec![variants[i].clone()],
                    label: label.clone(),
                })
                .collect(),
            _ => vec![],
        }
    }

    pub fn summary(&self) -> Value {
        let s = |spec: &ExecSpec| {
            json!({
                "cmdline": spec.cmdline(), "input_mode": format!("{:?}", spec.input_mode),
                "input_bytes": spec.input.len(), "policy": spec.policy.name(),
                "cap_limit": spec.cap_limit, "io_faults": spec.io.any(),
                "io_benign_only": spec.io.is_benign(), "stop_at_step": spec.stop_at_step
            })
        };
        match self {
            Trial::Orderly { spec, label, .. } => json!({"trial": "orderly", "label": label, "exec": s(spec)}),
            Trial::Sched { base, variants, label } => json!({
                "trial": "sched", "label": label, "reference": s(base),
                "variants": variants.iter().map(|v| json!({"policy": v.policy.name(), "cap_limit": v.cap_limit})).collect::<Vec<_>>()
            }),
            Trial::Conform { spec, label } => json!({"trial": "conform", "label": label, "exec": s(spec)}),
        }
    }
}

/// C01 oracle.
pub fn conform_verdict(r: &ExecResult, spec: &ExecSpec) -> Option<Fail> {
    let errs = oracle::error_msgs(&r.stderr);
    if let Some(e) = errs.first() {
        let code = e.codes.first().cloned().unwrap_or_else(|| "no-code".into());
        return Some(Fail::new(
            "false-alarm",
            &code,
            format!("conforming data rejected ({} error lines), first: {}", errs.len(), clip(&e.text)),
        ));
    }
    if r.status != 0 {
        return Some(Fail::new(
            "false-alarm",
            "exit-status",
            format!("conforming data: exit status {} (cmd: {})", r.status, spec.cmdline()),
        ));
    }
    if let Some(sf) = &r.stats_file {
        if let Some(v) = oracle::parse_stats(sf, &spec.stats_ext) {
            let total = oracle::stats_u64(&v, &["error_stats", "total_errors"]).unwrap_or(0);
            let rep = oracle::reported_errors(&v);
            if total != 0 || !rep.is_empty() {
                return Some(Fail::new(
                    "false-alarm",
                    "statistics-total-errors",
                    format!("conforming data: total_errors={total}, first: {:?}", rep.first()),
                ));
            }
        }
    }
    if let Some(n) = oracle::report_total_errors(&r.stdout) {
        if n != 0 {
            return Some(Fail::new(
                "false-alarm",
                "report-total-errors",
                format!("conforming data: report shows Total Errors {n}"),
            ));
        }
    }
    None
}
