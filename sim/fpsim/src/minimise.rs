//! Minimisation of a failing trial before it is reported (bounded number of re-executions):
//! fewer variants, canonical schedule or the shortest failing prefix of the recorded decision
//! list, no capacity cap, no benign I/O faults, fewer trailing packets — keeping the violation's
//! class and site.

use crate::exec::{IoSpec, PolicySpec};
use crate::framework::{Executor, Fail};
use crate::trials::Trial;
use itsgen::walker;
use serde_json::{json, Value};

const MAX_EXECS: u64 = 150;

fn still_fails(t: &Trial, want: &Fail, ex: &mut Executor) -> Option<Vec<Vec<u16>>> {
    ex.decisions.clear();
    let out = t.run(ex);
    match out.fail {
        Some(f) if f.class == want.class && f.site == want.site => Some(ex.decisions.clone()),
        _ => None,
    }
}

pub fn minimise(
    trial: &Trial,
    fail: &Fail,
    decisions: &[Vec<u16>],
    ex: &mut Executor,
) -> (Trial, Value) {
    let start_execs = ex.acc.execs;
    let endless = trial.clone().specs_mut().iter().any(|s| s.input_repeat.map_or(false, |n| n >= crate::scenarios::ENDLESS));
    // (an input that never ends: the recorded schedule is what makes the run fair, and every attempt costs a whole
    // step budget - the case is reported as it is)
    let budget_left = |ex: &Executor| !endless && ex.acc.execs - start_execs < MAX_EXECS;
    let mut best = trial.clone();
    let mut best_dec: Vec<Vec<u16>> = decisions.to_vec();
    let orig_input = best.clone().specs_mut().first().map(|s| s.input.len()).unwrap_or(0);
    let orig_noncanon: usize = decisions.iter().map(|d| d.len()).sum();

    // 1. fewer variants
    for cand in best.drop_candidates() {
        if !budget_left(ex) {
            break;
        }
        if let Some(d) = still_fails(&cand, fail, ex) {
            best = cand;
            best_dec = d;
            break;
        }
    }
    // 2. per spec: no capacity cap, no benign I/O faults
    let nspecs = best.clone().specs_mut().len();
    for i in 0..nspecs {
        if !budget_left(ex) {
            break;
        }
        let mut cand = best.clone();
        {
            let mut specs = cand.specs_mut();
            let s = &mut specs[i];
            if s.cap_limit.is_none() && !s.io.any() {
                continue;
            }
            s.cap_limit = None;
            s.io = IoSpec {
                eio_at: s.io.eio_at,
                eof_at: s.io.eof_at,
                stdout_fail_at: s.io.stdout_fail_at,
                stdout_errno: s.io.stdout_errno,
                stop_at_input_byte: s.io.stop_at_input_byte,
                stall_at: s.io.stall_at,
                ..Default::default()
            };
        }
        if let Some(d) = still_fails(&cand, fail, ex) {
            best = cand;
            best_dec = d;
        }
    }
    // 3. schedules: canonical, else the shortest failing prefix of the recorded decisions
    for i in 0..nspecs {
        if !budget_left(ex) {
            break;
        }
        let is_canon = {
            let mut b = best.clone();
            let specs = b.specs_mut();
            specs[i].policy == PolicySpec::Canonical
        };
        if is_canon {
            continue;
        }
        let mut cand = best.clone();
        {
            let mut specs = cand.specs_mut();
            specs[i].policy = PolicySpec::Canonical;
            specs[i].decisions.clear();
        }
        if let Some(d) = still_fails(&cand, fail, ex) {
            best = cand;
            best_dec = d;
            continue;
        }
        // replay of the recorded decision list
        let rec = match best_dec.get(i) {
            Some(r) if !r.is_empty() => r.clone(),
            _ => continue,
        };
        let mut cand = best.clone();
        {
            let mut specs = cand.specs_mut();
            specs[i].policy = PolicySpec::Replay;
            specs[i].decisions = rec.clone();
        }
        if still_fails(&cand, fail, ex).is_none() {
            continue; // recorded list does not reproduce on its own (should not happen)
        }
        best = cand;
        // binary search for the shortest prefix that still fails
        let (mut lo, mut hi) = (0usize, rec.len());
        while lo < hi && budget_left(ex) {
            let mid = (lo + hi) / 2;
            let mut c = best.clone();
            {
                let mut specs = c.specs_mut();
                specs[i].decisions = rec[..mid].to_vec();
            }
            if still_fails(&c, fail, ex).is_some() {
                hi = mid;
            } else {
                lo = mid + 1;
            }
        }
        let mut c = best.clone();
        {
            let mut specs = c.specs_mut();
            specs[i].decisions = rec[..hi].to_vec();
        }
        if still_fails(&c, fail, ex).is_some() {
            best = c;
        }
    }
    // 4. fewer trailing packets (same cut for every spec that shares the input)
    if best.input_shrinkable() && budget_left(ex) {
        let input = best.clone().specs_mut()[0].input.clone();
        let w = walker::walk(&input);
        let offs: Vec<usize> = w.pkts.iter().map(|p| p.off).collect();
        if offs.len() > 1 {
            let (mut lo, mut hi) = (1usize, offs.len());
            // smallest number of leading packets that still fails
            while lo < hi && budget_left(ex) {
                let mid = (lo + hi) / 2;
                let cut = offs[mid];
                let mut c = best.clone();
                for s in c.specs_mut() {
                    if s.input == input {
                        s.input.truncate(cut);
                    }
                }
                if still_fails(&c, fail, ex).is_some() {
                    hi = mid;
                } else {
                    lo = mid + 1;
                }
            }
            if hi < offs.len() {
                let cut = offs[hi];
                let mut c = best.clone();
                for s in c.specs_mut() {
                    if s.input == input {
                        s.input.truncate(cut);
                    }
                }
                if still_fails(&c, fail, ex).is_some() {
                    best = c;
                }
            }
        }
    }
    // final confirmation: the minimised trial must fail the same way
    if still_fails(&best, fail, ex).is_none() {
        best = trial.clone();
    }
    let final_input = best.clone().specs_mut().first().map(|s| s.input.len()).unwrap_or(0);
    let final_dec: usize = best.clone().specs_mut().iter().map(|s| s.decisions.len()).sum();
    (
        best,
        json!({
            "input_bytes": orig_input, "recorded_decisions": orig_noncanon,
            "minimised_input_bytes": final_input, "minimised_decisions": final_dec,
            "minimisation_executions": ex.acc.execs - start_execs
        }),
    )
}
