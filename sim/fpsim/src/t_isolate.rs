//! C06: each link is validated as if it were alone.

use crate::exec::{ExecResult, ExecSpec};
use crate::framework::{case_key, Executor, Fail, TrialOutcome};
use crate::oracle;
use crate::trials::{check_orderly, clip_pub, IsoRole};
use itsgen::walker::walk;
use std::collections::BTreeMap;

/// Normalised per-group message lists of a run: every offset (leading, `ending at 0x..`) is
/// replaced by (packet index within its group, byte offset within the packet).
fn normalise(r: &ExecResult, input: &[u8], by_fee: bool) -> BTreeMap<u16, Vec<String>> {
    let w = walk(input);
    // packet index within its group
    let mut counters: BTreeMap<u16, usize> = BTreeMap::new();
    let mut pk: Vec<(usize, usize, u16, usize)> = Vec::new(); // (start, end, group, idx)
    for p in &w.pkts {
        let g = if by_fee { p.rdh.fee_id } else { p.rdh.link_id as u16 };
        let c = counters.entry(g).or_insert(0);
        pk.push((p.off, p.off + p.rdh.offset_next as usize, g, *c));
        *c += 1;
    }
    let locate = |o: u64| -> Option<(u16, usize, usize)> {
        let o = o as usize;
        pk.iter().find(|(s, e, _, _)| o >= *s && o < *e).map(|(s, _, g, i)| (*g, *i, o - *s))
    };
    let mut out: BTreeMap<u16, Vec<String>> = BTreeMap::new();
    for e in oracle::error_msgs(&r.stderr) {
        let Some(off) = e.offset else {
            out.entry(u16::MAX).or_default().push(e.text.clone());
            continue;
        };
        let Some((g, idx, delta)) = locate(off) else {
            out.entry(u16::MAX).or_default().push(e.text.clone());
            continue;
        };
        // strip the leading offset
        let rest = e.text.splitn(2, ':').nth(1).unwrap_or("").to_string();
        let mut text = format!("<pkt {idx} +{delta}>:{rest}");
        // quoted frame end
        if let Some(i) = text.find("ending at 0x") {
            let hex: String = text[i + 12..].chars().take_while(|c| c.is_ascii_hexdigit()).collect();
            if let Ok(q) = u64::from_str_radix(&hex, 16) {
                if let Some((_, qi, qd)) = locate(q) {
                    text = format!("{}ending at <pkt {qi} +{qd}>{}", &text[..i], &text[i + 12 + hex.len()..]);
                }
            }
        }
        out.entry(g).or_default().push(text);
    }
    out
}

pub fn run_isolate(ex: &mut Executor, runs: &[(IsoRole, ExecSpec)], by_fee: bool, label: &str) -> TrialOutcome {
    let mut out = TrialOutcome { labels: vec![label.to_string()], ..Default::default() };
    let (_, ref_spec) = &runs[0];
    let r0 = ex.exec(ref_spec);
    out.key = case_key(&ref_spec.input, &r0);
    out.nontrivial = r0.outcome.threads >= 5;
    if let Some(f) = check_orderly(&r0) {
        out.fail = Some(f);
        return out;
    }
    let n0 = normalise(&r0, &ref_spec.input, by_fee);
    if n0.contains_key(&u16::MAX) {
        // a message that cannot be attributed to a packet (fatal etc.): not a C06 workload - unless the fatal is about
        // the system ID of the data, which the tool takes from the FIRST packet it analyses: a system ID no detector
        // has on a LATER packet is a finding about that packet's link, and must not end the run for all the others
        let sysid_fatal = oracle::log_messages(&r0.stderr)
            .iter()
            .any(|m| m.level == "ERROR" && (m.text.contains("Unknown system ID") || m.text.contains("Failed to parse system ID")));
        let first_known = walk(&ref_spec.input).pkts.first().map_or(true, |p| crate::t_stream::system_name(p.rdh.system_id).is_some());
        if sysid_fatal && first_known && !ref_spec.argv.iter().any(|a| ["-f", "-F", "-s"].contains(&a.as_str())) {
            out.fail = Some(Fail::new(
                "isolation",
                "fatal-for-a-finding-of-one-link",
                format!(
                    "the run ends with a fatal about the system ID although the first packet of the input names a known system: a later packet of one link ended the analysis of all links [cmd: {}]",
                    ref_spec.cmdline()
                ),
            ));
            return out;
        }
        out.nontrivial = false;
        return out;
    }
    let empty: Vec<String> = Vec::new();
    for (role, spec) in runs.iter().skip(1) {
        let r = ex.exec(spec);
        if let Some(f) = check_orderly(&r) {
            out.fail = Some(f);
            return out;
        }
        // The tool decides from the very first RDH of its input whether this is ALICE data and which
        // system it comes from; when the compared arrangement puts a corrupted RDH there the whole input
        // is refused (or the run ends with a fatal): no per-link validation takes place, nothing to compare.
        let refused = oracle::log_messages(&r.stderr).iter().any(|m| {
            m.level == "ERROR"
                && (m.text.starts_with("Init processing failed")
                    || m.text.starts_with("Failed to parse system ID")
                    || m.text.starts_with("FATAL: Unknown system ID"))
        });
        if refused {
            ex.probe("compared_run_refused_at_first_rdh");
            continue;
        }
        let n = normalise(&r, &spec.input, by_fee);
        let groups: Vec<u16> = match role {
            IsoRole::Reference => vec![],
            IsoRole::OtherMerge => {
                let mut g: Vec<u16> = n0.keys().chain(n.keys()).copied().collect();
                g.sort_unstable();
                g.dedup();
                g
            }
            IsoRole::Extracted(g) | IsoRole::Filtered(g) | IsoRole::Sequential(g) => vec![*g],
            IsoRole::CorruptedOther(a) => {
                let mut g: Vec<u16> = n0.keys().chain(n.keys()).copied().filter(|x| x != a).collect();
                g.sort_unstable();
                g.dedup();
                g
            }
        };
        // a filter run validates the selected packets only: no message may belong to a link / FEE ID
        // none of whose packets match the filter
        if let IsoRole::Filtered(_) = role {
            if let Some(f) = filter_of(&spec.argv) {
                let w = walk(&spec.input);
                let selected: std::collections::BTreeSet<u16> = w
                    .pkts
                    .iter()
                    .filter(|p| f.matches(&p.rdh))
                    .map(|p| if by_fee { p.rdh.fee_id } else { p.rdh.link_id as u16 })
                    .collect();
                if let Some((g, msgs)) = n.iter().find(|(g, m)| **g != u16::MAX && !selected.contains(g) && !m.is_empty()) {
                    out.fail = Some(Fail::new(
                        "isolation",
                        "filtered-run-reports-unselected-link",
                        format!(
                            "`{}` reports {} message(s) for {} {g}, none of whose packets match the filter; first: `{}`",
                            spec.cmdline(),
                            msgs.len(),
                            if by_fee { "FEE ID" } else { "link" },
                            clip_pub(&msgs[0])
                        ),
                    ));
                    return out;
                }
            }
        }
        for g in groups {
            let a = n0.get(&g).unwrap_or(&empty);
            let b = n.get(&g).unwrap_or(&empty);
            if a != b {
                let idx = (0..a.len().max(b.len())).find(|&i| a.get(i) != b.get(i)).unwrap_or(0);
                let site = match role {
                    IsoRole::OtherMerge => "differs-between-merges",
                    IsoRole::Extracted(_) => "differs-when-extracted",
                    IsoRole::Filtered(_) => "differs-when-filtered",
                    IsoRole::Sequential(_) => "differs-from-sequential-pass",
                    IsoRole::CorruptedOther(_) => "changed-by-corruption-on-another-link",
                    IsoRole::Reference => "reference",
                };
                out.fail = Some(Fail::new(
                    "isolation",
                    site,
                    format!(
                        "{} {g}: {} messages in the reference run, {} in `{}` ({role:?}); first difference at #{idx}: `{}` vs `{}`",
                        if by_fee { "FEE ID" } else { "link" },
                        a.len(),
                        b.len(),
                        spec.cmdline(),
                        a.get(idx).map(|s| clip_pub(s)).unwrap_or_else(|| "<none>".into()),
                        b.get(idx).map(|s| clip_pub(s)).unwrap_or_else(|| "<none>".into())
                    ),
                ));
                return out;
            }
        }
        // an unattributable message in a compared run
        if let Some(m) = n.get(&u16::MAX).and_then(|v| v.first()) {
            if !matches!(role, IsoRole::CorruptedOther(_)) {
                out.fail = Some(Fail::new("isolation", "unattributable-message", clip_pub(m)));
                return out;
            }
        }
    }
    out
}

/// The filter option of a command line (as produced by `Filter::args`).
fn filter_of(argv: &[String]) -> Option<itsgen::walker::Filter> {
    use itsgen::walker::Filter;
    for (i, a) in argv.iter().enumerate() {
        let v = argv.get(i + 1)?;
        match a.as_str() {
            "-f" => return v.parse().ok().map(Filter::Link),
            "-F" => return v.parse().ok().map(Filter::Fee),
            "-s" => {
                let (l, st) = v.strip_prefix('L')?.split_once('_')?;
                let (l, st): (u16, u16) = (l.parse().ok()?, st.parse().ok()?);
                return Some(Filter::Stave((l << 12) | st));
            }
            _ => {}
        }
    }
    None
}
