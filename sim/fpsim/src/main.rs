//! fpsim: deterministic simulation harness for fastPASTA (see /verif/DESIGN.md).
mod b64;
mod child;
mod corpus;
mod exec;
mod framework;
mod interpose;
mod minimise;
mod oracle;
mod scenarios;
mod selftest;
mod specgen;
mod t_exit;
mod t_fsm;
mod t_isolate;
mod t_statsrt;
mod t_stream;
mod t_views;
mod trials;

use exec::{exec, ExecSpec, InputMode, WorkDir};
use framework::Tier;

fn usage() -> ! {
    eprintln!(
        "usage:\n  fpsim check <property> quick|thorough\n  fpsim replay <file>\n  fpsim list\n  \
         fpsim smoke <file> [pipe] -- <fastpasta args with @IN@>\n  (internal) fpsim shard <property> <tier> <seed> <i> <n> <out>"
    );
    std::process::exit(2);
}

fn tier_of(s: &str) -> Tier {
    match s {
        "quick" => Tier::Quick,
        "thorough" => Tier::Thorough,
        _ => usage(),
    }
}

fn main() {
    let args: Vec<String> = std::env::args().collect();
    match args.get(1).map(|s| s.as_str()) {
        Some("smoke") => smoke(&args[2..]),
        Some("list") => {
            for s in scenarios::registry() {
                println!("{}", s.property());
            }
        }
        Some("check") if args.len() >= 4 => {
            let sc = match scenarios::find(&args[2]) {
                Some(s) => s,
                None => {
                    eprintln!("fpsim: no scenario for property {}", args[2]);
                    std::process::exit(2);
                }
            };
            let code = framework::run_check(sc.as_ref(), tier_of(&args[3]));
            std::process::exit(code);
        }
        Some("shard") if args.len() >= 8 => {
            let sc = scenarios::find(&args[2]).unwrap_or_else(|| usage());
            let tier = tier_of(&args[3]);
            let seed: u64 = args[4].parse().unwrap_or_else(|_| usage());
            let i: u64 = args[5].parse().unwrap_or_else(|_| usage());
            let n: u64 = args[6].parse().unwrap_or_else(|_| usage());
            framework::run_shard(sc.as_ref(), tier, seed, i, n, std::path::Path::new(&args[7]));
        }
        Some("trial") if args.len() >= 4 => {
            // debugging aid: run one case of a scenario verbosely
            let sc = scenarios::find(&args[2]).unwrap_or_else(|| usage());
            let case: u64 = args[3].parse().unwrap_or_else(|_| usage());
            let tier = args.get(4).map(|s| tier_of(s)).unwrap_or(Tier::Quick);
            let seed = fpsim_rt::rng::mix(&[
                framework::base_seed(),
                fpsim_rt::rng::hash_bytes(sc.property().as_bytes()),
                case,
            ]);
            let mut trial = sc.make(seed, case, tier);
            println!("{}", serde_json::to_string_pretty(&trial.summary()).unwrap());
            let wd = WorkDir::new("trial");
            let mut ex = framework::Executor::new(&wd);
            let out = trial.run(&mut ex);
            println!("fail={:?}\nnontrivial={} labels={:?}", out.fail, out.nontrivial, out.labels);
            if let Ok(dir) = std::env::var("FPSIM_DUMP") {
                for (i, sp) in trial.specs_mut().iter().enumerate() {
                    std::fs::write(format!("{dir}/trial-{i}.raw"), &sp.input).unwrap();
                    let r = exec(sp, &wd);
                    println!("--- exec {i}: {} -> status {} end {:?} disorder {:?}", sp.cmdline(), r.status, r.end, r.disorder());
                    println!("{}", r.stderr_str());
                    println!("{}", r.stdout_str());
                }
            }
        }
        Some("selftest") => {
            let tier = args.get(2).map(|s| tier_of(s)).unwrap_or(Tier::Quick);
            std::process::exit(selftest::run(tier));
        }
        Some("replay") if args.len() >= 3 => {
            std::process::exit(framework::replay(std::path::Path::new(&args[2])));
        }
        _ => usage(),
    }
}

/// Run one real file through the simulator and print what came back.
fn smoke(args: &[String]) {
    let file = &args[0];
    let pipe = args.get(1).map(|s| s == "pipe").unwrap_or(false);
    let pos = args.iter().position(|a| a == "--").expect("--");
    let fargs: Vec<&str> = args[pos + 1..].iter().map(|s| s.as_str()).collect();
    let input = std::fs::read(file).expect("read input");
    let wd = WorkDir::new("smoke");
    let mut spec = ExecSpec::new(&fargs, if pipe { InputMode::Pipe } else { InputMode::File }, input);
    if let Ok(p) = std::env::var("FPSIM_P") {
        spec.policy = exec::PolicySpec::Random { p_permille: p.parse().unwrap() };
        spec.sched_seed = std::env::var("FPSIM_S").ok().and_then(|s| s.parse().ok()).unwrap_or(1);
    }
    let res = exec(&spec, &wd);
    println!("end={:?} status={} rejected={}", res.end, res.status, res.config_rejected);
    println!(
        "steps={} switches={} threads={} {:?} trace={:016x} arrival={:016x}/{}",
        res.outcome.steps,
        res.outcome.switches,
        res.outcome.threads,
        res.outcome.thread_names,
        res.outcome.trace_hash,
        res.outcome.arrival_hash,
        res.outcome.arrival_msgs
    );
    println!("disorder={:?} probes={:?} io={:?} wall_us={}", res.disorder(), res.outcome.probes, res.io, res.wall_us);
    println!("--- stdout ({} bytes)\n{}", res.stdout.len(), res.stdout_str());
    println!("--- stderr ({} bytes)\n{}", res.stderr.len(), res.stderr_str());
    if let Some(s) = &res.stats_file {
        println!("--- stats file ({} bytes)", s.len());
    }
    if let Some(s) = &res.out_file {
        println!("--- out file ({} bytes)", s.len());
    }
}
