//! fpsim: deterministic simulation harness for fastPASTA (see /verif/DESIGN.md).
mod b64;
mod child;
mod exec;
mod interpose;

use exec::{exec, ExecSpec, InputMode, WorkDir};

fn main() {
    let args: Vec<String> = std::env::args().collect();
    match args.get(1).map(|s| s.as_str()) {
        Some("smoke") => smoke(&args[2..]),
        _ => {
            eprintln!("usage: fpsim smoke <file|-> [pipe] -- <fastpasta args with @IN@>");
            std::process::exit(2);
        }
    }
}

/// Run one real file through the simulator and print what came back.
fn smoke(args: &[String]) {
    let file = &args[0];
    let pipe = args.get(1).map(|s| s == "pipe").unwrap_or(false);
    let pos = args.iter().position(|a| a == "--").expect("--");
    let fargs: Vec<&str> = args[pos + 1..].iter().map(|s| s.as_str()).collect();
    let input = std::fs::read(file).expect("read input");
    let wd = WorkDir::new("smoke");
    let mut spec = ExecSpec::new(&fargs, if pipe { InputMode::Pipe } else { InputMode::File }, input);
    if let Ok(p) = std::env::var("FPSIM_P") {
        spec.policy = exec::PolicySpec::Random { p_permille: p.parse().unwrap() };
        spec.sched_seed = std::env::var("FPSIM_S").ok().and_then(|s| s.parse().ok()).unwrap_or(1);
    }
    let res = exec(&spec, &wd);
    println!("end={:?} status={} rejected={}", res.end, res.status, res.config_rejected);
    println!(
        "steps={} switches={} threads={} {:?} trace={:016x} arrival={:016x}/{}",
        res.outcome.steps,
        res.outcome.switches,
        res.outcome.threads,
        res.outcome.thread_names,
        res.outcome.trace_hash,
        res.outcome.arrival_hash,
        res.outcome.arrival_msgs
    );
    println!("disorder={:?} probes={:?} io={:?} wall_us={}", res.disorder(), res.outcome.probes, res.io, res.wall_us);
    println!("--- stdout ({} bytes)\n{}", res.stdout.len(), res.stdout_str());
    println!("--- stderr ({} bytes)\n{}", res.stderr.len(), res.stderr_str());
    if let Some(s) = &res.stats_file {
        println!("--- stats file ({} bytes)", s.len());
    }
    if let Some(s) = &res.out_file {
        println!("--- out file ({} bytes)", s.len());
    }
}
