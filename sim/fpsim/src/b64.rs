//! Minimal base64 (standard alphabet, padded) plus serde adapters for byte vectors.
use serde::{Deserialize, Deserializer, Serializer};

const ALPHA: &[u8; 64] = b"ABCDEFGHIJKLMNOPQRSTUVWXYZabcdefghijklmnopqrstuvwxyz0123456789+/";

pub fn encode(data: &[u8]) -> String {
    let mut out = String::with_capacity((data.len() + 2) / 3 * 4);
    for chunk in data.chunks(3) {
        let b = [chunk[0], *chunk.get(1).unwrap_or(&0), *chunk.get(2).unwrap_or(&0)];
        let n = ((b[0] as u32) << 16) | ((b[1] as u32) << 8) | b[2] as u32;
        out.push(ALPHA[(n >> 18) as usize & 63] as char);
        out.push(ALPHA[(n >> 12) as usize & 63] as char);
        out.push(if chunk.len() > 1 { ALPHA[(n >> 6) as usize & 63] as char } else { '=' });
        out.push(if chunk.len() > 2 { ALPHA[n as usize & 63] as char } else { '=' });
    }
    out
}

pub fn decode(s: &str) -> Result<Vec<u8>, String> {
    let mut out = Vec::with_capacity(s.len() / 4 * 3);
    let mut acc: u32 = 0;
    let mut bits = 0;
    for c in s.bytes() {
        let v = match c {
            b'A'..=b'Z' => c - b'A',
            b'a'..=b'z' => c - b'a' + 26,
            b'0'..=b'9' => c - b'0' + 52,
            b'+' => 62,
            b'/' => 63,
            b'=' | b'\n' | b'\r' | b' ' => continue,
            _ => return Err(format!("bad base64 char {c}")),
        };
        acc = (acc << 6) | v as u32;
        bits += 6;
        if bits >= 8 {
            bits -= 8;
            out.push((acc >> bits) as u8);
            acc &= (1 << bits) - 1;
        }
    }
    Ok(out)
}

pub fn serialize<S: Serializer>(v: &Vec<u8>, s: S) -> Result<S::Ok, S::Error> {
    s.serialize_str(&encode(v))
}
pub fn deserialize<'de, D: Deserializer<'de>>(d: D) -> Result<Vec<u8>, D::Error> {
    let s = String::deserialize(d)?;
    decode(&s).map_err(serde::de::Error::custom)
}

pub mod opt {
    use serde::{Deserialize, Deserializer, Serializer};
    pub fn serialize<S: Serializer>(v: &Option<Vec<u8>>, s: S) -> Result<S::Ok, S::Error> {
        match v {
            Some(b) => s.serialize_some(&super::encode(b)),
            None => s.serialize_none(),
        }
    }
    pub fn deserialize<'de, D: Deserializer<'de>>(d: D) -> Result<Option<Vec<u8>>, D::Error> {
        let s: Option<String> = Option::deserialize(d)?;
        match s {
            Some(s) => super::decode(&s).map(Some).map_err(serde::de::Error::custom),
            None => Ok(None),
        }
    }
}
