//! Body of the forked child: the stubbed driver `sim_main` (a transcription of
//! `fastpasta::init::run`, see DESIGN.md §2.1 f) executed as managed thread T0.

use crate::exec::{io_plan, run_config, EndKind, ExecResult, ExecSpec, IoRec, OutcomeRec};
use clap::Parser;
use fastpasta::config::prelude::*;
use fastpasta::config::Cfg;
use fastpasta::stats::StatType;
use std::io::{Read, Write};

fn install_panic_hook() {
    std::panic::set_hook(Box::new(|info| {
        if info.payload().is::<fpsim_rt::sched::AbortRun>() {
            return;
        }
        let loc = info
            .location()
            .map(|l| {
                let f = l.file();
                // stable site: path relative to the repository, with line
                let f = f.rsplit_once("/repo/").map(|(_, r)| r).unwrap_or(f);
                format!("{}:{}", f, l.line())
            })
            .unwrap_or_else(|| "<unknown>".into());
        let msg = if let Some(s) = info.payload().downcast_ref::<&str>() {
            s.to_string()
        } else if let Some(s) = info.payload().downcast_ref::<String>() {
            s.clone()
        } else {
            "<non-string panic payload>".to_string()
        };
        fpsim_rt::sched::record_panic(loc, msg);
    }));
}

fn exit_code_to_u8(code: std::process::ExitCode) -> i32 {
    // ExitCode is opaque on stable Rust: read it back from its Debug rendering,
    // e.g. `ExitCode(unix_exit_status(3))`.
    let s = format!("{code:?}");
    let digits: String = s.chars().filter(|c| c.is_ascii_digit()).collect();
    digits.parse::<i32>().unwrap_or(-1)
}

/// Transcription of `fastpasta::init::run` after configuration and logger set-up: the same public
/// functions in the same order. The `ctrlc` handler is not installed; the stop flag is handed to
/// the scheduler, which performs the handler's store at the step the run's plan says.
fn sim_main() -> i32 {
    let (controller, stat_send_chan, stop_flag, any_errors_flag) =
        fastpasta::controller::init_controller(Cfg::global());
    fpsim_rt::sched::set_stop_flag(stop_flag.clone());

    let exit_code: u8 = match alice_protocol_reader::init_reader(Cfg::global().input_file()) {
        Ok(readable) => {
            match fastpasta::init_processing(Cfg::global(), readable, stat_send_chan, stop_flag) {
                Ok(_) => 0,
                Err(e) => {
                    // target: the logger only shows records of the `fastpasta` module tree
                    log::error!(target: "fastpasta::init", "Init processing failed: {e}");
                    1
                }
            }
        }
        Err(e) => {
            stat_send_chan
                .send(StatType::Fatal(e.to_string().into()))
                .unwrap();
            drop(stat_send_chan);
            1
        }
    };
    fpsim_rt::thread::before_join(&controller);
    controller.join().expect("Failed to join stats thread");
    exit_code_to_u8(fastpasta::util::lib::exit(exit_code, &any_errors_flag))
}

/// C06: one sequential pass of the input's packets through one real link validator, on this thread.
fn seq_pass_main(input: &[u8]) -> i32 {
    use alice_protocol_reader::prelude::*;
    use fastpasta::analyze::validators::link_validator::LinkValidator;
    let (tx, rx) = flume::unbounded::<StatType>();
    let (mut lv, data_tx) = LinkValidator::<RdhCru, Cfg>::new(Cfg::global(), tx);
    let w = itsgen::walker::walk(input);
    let skip = Cfg::global().skip_payload();
    for p in &w.pkts {
        let rdh = RdhCru::load(&mut &input[p.off..p.off + 64]).expect("rdh");
        let payload = if skip { Vec::new() } else { input[p.payload.clone()].to_vec() };
        data_tx.send((rdh, payload, p.off as u64)).expect("send to link validator");
    }
    drop(data_tx);
    lv.run();
    drop(lv);
    let mut msgs: Vec<(u64, String)> = Vec::new();
    while let Ok(m) = rx.try_recv() {
        if let StatType::Error(e) = m {
            let off = crate::oracle::parse_err_text(&crate::oracle::strip_ansi(&e)).offset.unwrap_or(u64::MAX);
            msgs.push((off, e.to_string()));
        }
    }
    msgs.sort(); // (position, text): same rule as the collector (ErrorStats::sort_error_msgs_by_mem_pos)
    for (_, m) in &msgs {
        fastpasta::display_error(m);
    }
    0
}

/// Returns (status, config_rejected)
fn configure_and_run(argv: &[String]) -> (i32, bool) {
    let mut full: Vec<String> = vec!["fastpasta".to_string()];
    full.extend(argv.iter().cloned());
    // clap itself ends the process on a malformed command line: find that out first (same parser) ...
    if let Err(e) = Cfg::try_parse_from(full.clone()) {
        let _ = e.print();
        return (e.exit_code(), true);
    }
    // ... then the real `init_config()` (parse, validate, custom checks, CONFIG) through the guarded
    // process-arguments seam, handled as `init::run` handles it
    fpsim_rt::set_process_args(full);
    if let Err(e) = fastpasta::config::init_config() {
        eprintln!("{e}");
        return (1, true);
    }
    fastpasta::util::lib::init_error_logger(Cfg::global());
    if Cfg::global().generate_custom_checks_toml_enabled() {
        return (0, false);
    }
    if Cfg::global().generate_completions.is_some() {
        return (0, false);
    }
    if let Some(input) = SEQ_PASS_INPUT.with(|c| c.borrow_mut().take()) {
        return (seq_pass_main(&input), false);
    }
    (sim_main(), false)
}

thread_local! {
    static SEQ_PASS_INPUT: std::cell::RefCell<Option<Vec<u8>>> = const { std::cell::RefCell::new(None) };
}

pub fn child_main(spec: &ExecSpec, argv: &[String], input_id: Option<(u64, u64)>) -> ExecResult {
    install_panic_hook();
    if spec.seq_pass {
        SEQ_PASS_INPUT.with(|c| *c.borrow_mut() = Some(spec.input.clone()));
    }
    fpsim_rt::io::begin(io_plan(spec, input_id));
    let cfg = run_config(spec);
    let r = fpsim_rt::run(cfg, || {
        let r = configure_and_run(argv);
        // What the runtime does at process exit: flush std's stdout buffer (errors ignored).
        let _ = std::io::stdout().flush();
        r
    });
    let io_state = fpsim_rt::io::end();
    // keep the borrow checker and the optimizer honest about stdin's buffer: nothing to drain in a
    // forked child (the process ends here).
    // (a reader parked for good in a stalled read holds std's stdin lock: do not wait for it)
    if !fpsim_rt::sched::any_thread_stalled() {
        let _ = std::io::stdin().lock().bytes().size_hint();
    }
    let (value, outcome) = match r {
        Ok(x) => x,
        Err(e) => {
            return ExecResult {
                end: EndKind::Harness(format!("{e:?}")),
                ..crate::exec::empty_result()
            }
        }
    };
    let (stdout, stderr, ioc) = match io_state {
        Some(st) => (st.stdout, st.stderr, st.counters),
        None => (Vec::new(), Vec::new(), Default::default()),
    };
    let (status, config_rejected) = value.unwrap_or((-1, false));
    ExecResult {
        end: EndKind::Completed,
        status,
        config_rejected,
        stdout,
        stderr,
        out_file: None,
        stats_file: None,
        outcome: OutcomeRec::from(outcome),
        io: IoRec {
            input_reads: ioc.input_reads,
            input_bytes: ioc.input_bytes,
            short_reads: ioc.short_reads,
            read_eintr: ioc.read_eintr,
            read_eio: ioc.read_eio,
            read_eof_injected: ioc.read_eof_injected,
            stdout_writes: ioc.stdout_writes,
            stdout_short_writes: ioc.stdout_short_writes,
            stdout_eintr: ioc.stdout_eintr,
            stdout_failed_writes: ioc.stdout_failed_writes,
            stderr_writes: ioc.stderr_writes,
            input_bytes_after_stop: fpsim_rt::io::input_bytes_after_stop(),
            stdout_failed_writes_first_thread: ioc.stdout_failed_writes_first_thread,
            clock_jumps: fpsim_rt::io::clock_jumps_fired(),
            seeded_entropy_reads: fpsim_rt::io::entropy_calls(),
        },
        wall_us: 0,
        cwd_files: Vec::new(),
    }
}
