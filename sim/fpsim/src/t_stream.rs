//! Oracles over well-framed streams: scanning (C03), filtered writing (C08), statistics (C14).

use crate::exec::{ExecResult, ExecSpec};
use crate::framework::{case_key, Executor, Fail, TrialOutcome};
use crate::oracle::{self, FrameRow};
use crate::trials::check_orderly;
use itsgen::walker::{payload_words, truth_stats, walk, Filter, Walk};
use serde_json::Value;

fn fail(class: &str, site: &str, msg: String) -> Option<Fail> {
    Some(Fail::new(class, site, msg))
}

pub fn filter_of_argv(argv: &[String]) -> Filter {
    let get = |flag: &str| argv.iter().position(|a| a == flag).and_then(|i| argv.get(i + 1)).cloned();
    if let Some(v) = get("-f") {
        return v.parse().map(Filter::Link).unwrap_or(Filter::None);
    }
    if let Some(v) = get("-F") {
        return v.parse().map(Filter::Fee).unwrap_or(Filter::None);
    }
    if let Some(v) = get("-s") {
        let t = v.trim_start_matches(|c| c == 'L' || c == 'l');
        if let Some((l, st)) = t.split_once('_') {
            if let (Ok(l), Ok(st)) = (l.parse::<u8>(), st.parse::<u8>()) {
                return Filter::Stave(itsgen::rdh::fee_id(l, st, 0));
            }
        }
    }
    Filter::None
}

/// `view rdh -d` rows must be exactly the walker's packets that match the filter, in order, with
/// the walker's offsets and independently decoded field values.
pub fn check_rdh_rows(r: &ExecResult, w: &Walk, f: Filter) -> Option<Fail> {
    let rows = oracle::rdh_rows(&r.stdout);
    let want: Vec<_> = w.pkts.iter().filter(|p| f.matches(&p.rdh)).collect();
    if rows.len() != want.len() {
        return fail(
            "scan",
            "rdh-row-count",
            format!("view rdh printed {} rows, the chain walk visits {} matching RDHs", rows.len(), want.len()),
        );
    }
    for (i, (row, p)) in rows.iter().zip(want.iter()).enumerate() {
        let h = &p.rdh;
        let exp = [
            ("offset", p.off as u64, row.off),
            ("version", h.version as u64, row.version),
            ("header_size", h.header_size as u64, row.header_size),
            ("fee_id", h.fee_id as u64, row.fee_id),
            ("system_id", h.system_id as u64, row.system_id),
            ("offset_next", h.offset_next as u64, row.offset_next),
            ("link_id", h.link_id as u64, row.link_id),
            ("packet_counter", h.packet_counter as u64, row.packet_counter),
            ("bc", h.bc as u64, row.bc),
            ("orbit", h.orbit as u64, row.orbit),
            ("data_format", h.data_format as u64, row.data_format),
            ("trigger_type", h.trigger_type as u64, row.trigger_type),
            ("pages_counter", h.pages_counter as u64, row.pages_counter),
            ("stop_bit", h.stop_bit as u64, row.stop_bit),
            ("detector_field", h.detector_field as u64, row.detector_field),
        ];
        for (name, want, got) in exp {
            if want != got {
                return fail(
                    "scan",
                    &format!("rdh-row-{name}"),
                    format!("row {i} (RDH at {:#X}): {name} shown as {got:#X}, input has {want:#X}", p.off),
                );
            }
        }
    }
    None
}

/// Data view: RDH rows at the walker's offsets; every word of every matching packet appears once,
/// in order, either as a row or (unknown ID) as an error line, at its true offset with its bytes.
pub fn check_data_view(r: &ExecResult, input: &[u8], w: &Walk, f: Filter, with_data: bool) -> Option<Fail> {
    let rows = oracle::frame_rows(&r.stdout);
    let unknown = oracle::view_unknown_id_errors(&r.stderr);
    let mut ri = 0usize;
    let mut ui = 0usize;
    for p in w.pkts.iter().filter(|p| f.matches(&p.rdh)) {
        match rows.get(ri) {
            Some(FrameRow::Rdh { off, text }) if *off == p.off as u64 => {
                let want = format!("RDH v{} stop={}", p.rdh.version, p.rdh.stop_bit);
                if !text.starts_with(&want) {
                    return fail(
                        "view",
                        "frame-rdh-row-fields",
                        format!("RDH row at {:#X} shows `{}`, input has `{want}`", p.off, crate::trials::clip_pub(text)),
                    );
                }
                ri += 1;
            }
            other => {
                return fail(
                    "view",
                    "frame-rdh-row-missing",
                    format!("expected the RDH row of the packet at {:#X}, found {:?}", p.off, other),
                )
            }
        }
        let words = match payload_words(&input[p.payload.clone()], p.rdh.data_format, p.payload.start) {
            Ok(ws) => ws,
            Err(_) => return None, // excess padding: a documented fatal for the views; not judged here
        };
        for wd in words {
            let id = wd.bytes[9];
            let kind = itsgen::words::kind_of_id(id);
            if kind == itsgen::words::Kind::Unknown {
                match unknown.get(ui) {
                    Some((off, b)) if *off == wd.off as u64 && *b == wd.bytes => ui += 1,
                    other => {
                        return fail(
                            "view",
                            "unknown-id-line",
                            format!("word with unknown ID {id:#04X} at {:#X}: expected an error line for it, found {:?}", wd.off, other),
                        )
                    }
                }
                continue;
            }
            if kind == itsgen::words::Kind::Data && !with_data {
                continue;
            }
            let tag = match kind {
                itsgen::words::Kind::Ihw => "IHW",
                itsgen::words::Kind::Tdh => "TDH",
                itsgen::words::Kind::Tdt => "TDT",
                itsgen::words::Kind::Ddw0 => "DDW",
                itsgen::words::Kind::Cdw => "CDW",
                _ => "DATA",
            };
            match rows.get(ri) {
                Some(FrameRow::Word { off, tag: t, bytes, .. })
                    if *off == wd.off as u64 && t == tag && *bytes == wd.bytes =>
                {
                    ri += 1
                }
                other => {
                    return fail(
                        "view",
                        "word-row",
                        format!(
                            "word {tag} at {:#X} {:02X?}: expected its row, found {:?}",
                            wd.off, wd.bytes, other
                        ),
                    )
                }
            }
        }
    }
    if ri != rows.len() {
        return fail(
            "view",
            "extra-rows",
            format!("{} rows printed beyond what the input contains, first: {:?}", rows.len() - ri, rows.get(ri)),
        );
    }
    if ui != unknown.len() {
        return fail("view", "extra-unknown-id-lines", format!("{} unknown-ID lines too many", unknown.len() - ui));
    }
    None
}

pub fn check_scan_stats(stats: &Value, w: &Walk, f: Filter) -> Option<Fail> {
    let t = truth_stats(w, f);
    let pairs = [
        ("rdhs_seen", t.rdhs_seen),
        ("rdhs_filtered", t.rdhs_filtered),
        ("payload_size", t.payload_size),
    ];
    for (name, want) in pairs {
        let got = oracle::stats_u64(stats, &["rdh_stats", name]);
        if got != Some(want) {
            return fail(
                "statistics",
                &format!("rdh_stats.{name}"),
                format!("statistics file has {name} = {got:?}, the input has {want}"),
            );
        }
    }
    None
}

/// Full ground-truth comparison of a statistics file (C14). `analysed`: packets are analysed (check
/// and view modes), so heartbeat frames, layer/stave pairs and trigger counts are collected.
pub fn check_stats_truth(stats: &Value, w: &Walk, f: Filter, analysed: bool) -> Option<Fail> {
    if let Some(x) = check_scan_stats(stats, w, f) {
        return Some(x);
    }
    let t = truth_stats(w, f);
    let rs = stats.get("rdh_stats")?;
    let arr_u64 = |v: Option<&Value>| -> Vec<u64> {
        v.and_then(|a| a.as_array()).map(|a| a.iter().filter_map(|x| x.as_u64()).collect()).unwrap_or_default()
    };
    // "the sorted set of links": compared as a set (views and stdout output do not finalise, i.e.
    // do not sort, the list; its order is not part of the statement)
    let mut links = arr_u64(rs.get("links"));
    links.sort_unstable();
    let want_links: Vec<u64> = t.links.iter().map(|&x| x as u64).collect();
    if links != want_links {
        return fail("statistics", "rdh_stats.links", format!("links {links:?}, input has {want_links:?}"));
    }
    let fees = arr_u64(rs.get("fee_id"));
    let want_fees: Vec<u64> = t.fee_ids.iter().map(|&x| x as u64).collect();
    if fees != want_fees {
        return fail("statistics", "rdh_stats.fee_id", format!("FEE IDs {fees:?}, input has {want_fees:?} (first-seen order)"));
    }
    if w.pkts.is_empty() {
        return None;
    }
    let single = [
        ("rdh_version", t.rdh_version as u64),
        ("data_format", t.data_format as u64),
    ];
    for (name, want) in single {
        let got = rs.get(name).and_then(|v| v.as_u64());
        if got != Some(want) {
            return fail("statistics", &format!("rdh_stats.{name}"), format!("{name} = {got:?}, input has {want}"));
        }
    }
    let rtt = rs.get("run_trigger_type").and_then(|v| v.as_array()).and_then(|a| a.first()).and_then(|v| v.as_u64());
    if rtt != Some(t.run_trigger_type as u64) {
        return fail(
            "statistics",
            "rdh_stats.run_trigger_type",
            format!("run trigger type {rtt:?}, first RDH has {:#X}", t.run_trigger_type),
        );
    }
    let sys = rs.get("system_id").and_then(|v| v.as_str()).map(|s| s.to_string());
    let want_sys = system_name(t.system_id);
    if sys.as_deref() != want_sys {
        return fail("statistics", "rdh_stats.system_id", format!("system id {sys:?}, first RDH has {want_sys:?}"));
    }
    // analysed-packet statistics
    let hbfs = rs.get("hbfs_seen").and_then(|v| v.as_u64()).unwrap_or(0);
    let want_hbfs = if analysed { t.hbfs } else { 0 };
    if hbfs != want_hbfs {
        return fail("statistics", "rdh_stats.hbfs_seen", format!("hbfs_seen {hbfs}, stop-bit packets analysed: {want_hbfs}"));
    }
    if analysed {
        // trigger bits over analysed packets
        const BITS: [(&str, u32); 20] = [
            ("orbit", 0), ("hb", 1), ("hbr", 2), ("hc", 3), ("pht", 4), ("pp", 5), ("cal", 6), ("sot", 7),
            ("eot", 8), ("soc", 9), ("eoc", 10), ("tf", 11), ("fe_rst", 12), ("rt", 13), ("rs", 14),
            ("lhc_gap1", 27), ("lhc_gap2", 28), ("tpc_sync", 29), ("tpc_rst", 30), ("tof", 31),
        ];
        let ts = rs.get("trigger_stats")?;
        for (name, bit) in BITS {
            let want = w
                .pkts
                .iter()
                .filter(|p| f.matches(&p.rdh) && (p.rdh.trigger_type >> bit) & 1 == 1)
                .count() as u64;
            let got = ts.get(name).and_then(|v| v.as_u64());
            if got != Some(want) {
                return fail(
                    "statistics",
                    &format!("trigger_stats.{name}"),
                    format!("trigger_stats.{name} = {got:?}, packets with bit {bit} set: {want}"),
                );
            }
        }
        // layer/stave pairs are collected when the first analysed packet says ITS
        let first_sys = w.pkts.iter().find(|p| f.matches(&p.rdh)).map(|p| p.rdh.system_id);
        let ls: Vec<(u64, u64)> = rs
            .get("its_stats")
            .and_then(|v| v.get("layer_staves_seen"))
            .and_then(|v| v.as_array())
            .map(|a| {
                a.iter()
                    .filter_map(|x| x.as_array())
                    .filter_map(|x| Some((x.first()?.as_u64()?, x.get(1)?.as_u64()?)))
                    .collect()
            })
            .unwrap_or_default();
        let want_ls: Vec<(u64, u64)> = if first_sys == Some(0x20) {
            t.layer_staves.iter().map(|&(l, s)| (l as u64, s as u64)).collect()
        } else {
            vec![]
        };
        if ls != want_ls {
            return fail("statistics", "its_stats.layer_staves_seen", format!("layer/staves {ls:?}, input has {want_ls:?}"));
        }
    }
    // error accounting inside the file
    let es = stats.get("error_stats")?;
    let total = es.get("total_errors").and_then(|v| v.as_u64()).unwrap_or(0);
    let rep = oracle::reported_errors(stats);
    let custom = es.get("custom_checks_stats_errors").and_then(|v| v.as_array()).map(|a| a.len()).unwrap_or(0);
    if total != (rep.len() + custom) as u64 {
        return fail(
            "statistics",
            "error_stats.total_errors",
            format!("total_errors {total} but {} reported + {custom} custom-check messages", rep.len()),
        );
    }
    let mut codes: Vec<String> = Vec::new();
    for m in &rep {
        for c in oracle::parse_err_text(m).codes {
            let c = c.trim_start_matches('E').to_string();
            if !codes.contains(&c) {
                codes.push(c);
            }
        }
    }
    let got_codes: Vec<String> = es
        .get("unique_error_codes")
        .and_then(|v| v.as_array())
        .map(|a| a.iter().filter_map(|x| x.as_str().map(|s| s.to_string())).collect())
        .unwrap_or_default();
    // ... followed by the codes of the end-of-run expectation messages ([E9001], [E9002]) not yet in the list
    for m in es.get("custom_checks_stats_errors").and_then(|v| v.as_array()).into_iter().flatten().filter_map(|x| x.as_str()) {
        for c in oracle::parse_err_text(m).codes {
            let c = c.trim_start_matches('E').to_string();
            if !codes.contains(&c) {
                codes.push(c);
            }
        }
    }
    if es.get("fatal_error").map_or(true, |v| v.is_null()) {
        // finalisation (which extracts the codes) does not run in view mode / stdout output mode
        let finalized = stats.get("is_finalized").and_then(|v| v.as_bool()).unwrap_or(false);
        if finalized && got_codes != codes {
            return fail(
                "statistics",
                "error_stats.unique_error_codes",
                format!("unique_error_codes {got_codes:?}, codes in the reported messages: {codes:?}"),
            );
        }
    }
    None
}

pub fn system_name(id: u8) -> Option<&'static str> {
    Some(match id {
        3 => "TPC",
        4 => "TRD",
        5 => "TOF",
        6 => "HMP",
        7 => "PHS",
        8 => "CPV",
        10 => "MCH",
        15 => "ZDC",
        17 => "TRG",
        18 => "EMC",
        19 => "TST",
        32 => "ITS",
        33 => "FDD",
        34 => "FT0",
        35 => "FV0",
        36 => "MFT",
        37 => "MID",
        38 => "DCS",
        39 => "FOC",
        255 => "Unloaded",
        _ => return None,
    })
}

/// C03 trial body: the same well-framed input under several payload-handling paths.
/// A stream of several GiB: the input delivered `rep` times in a row through the pipe seam. Rows and
/// error positions are those of one delivery shifted by multiples of its length - also beyond 2^32.
fn run_scan_huge(ex: &mut Executor, specs: &[ExecSpec], rep: u64, label: &str) -> TrialOutcome {
    let mut out = TrialOutcome { labels: vec![label.to_string()], ..Default::default() };
    let input = &specs[0].input;
    let w = walk(input);
    let period = input.len() as u64;
    for (i, spec) in specs.iter().enumerate() {
        let r = ex.exec(spec);
        ex.fault("stream_beyond_4_GiB");
        if i == 0 {
            out.key = case_key(input, &r);
            out.nontrivial = r.outcome.threads >= 3;
        }
        if let Some(f) = check_orderly(&r) {
            out.fail = Some(f);
            return out;
        }
        let is = |a: &str| spec.argv.iter().any(|x| x == a);
        let tagm = |m: String| format!("{m} [cmd: {} ; pipe, {} bytes x {rep}]", spec.cmdline(), input.len());
        if is("view") {
            let rows = oracle::rdh_rows(&r.stdout);
            let want = w.pkts.len() as u64 * rep;
            if rows.len() as u64 != want {
                out.fail = fail("scan", "huge-rdh-row-count", tagm(format!("view rdh printed {} rows, the stream has {want} RDHs", rows.len())));
                return out;
            }
            for (k, row) in rows.iter().enumerate() {
                let p = &w.pkts[k % w.pkts.len()];
                let off = p.off as u64 + (k / w.pkts.len()) as u64 * period;
                if row.off != off || row.orbit != p.rdh.orbit as u64 || row.link_id != p.rdh.link_id as u64 {
                    out.fail = fail(
                        "scan",
                        "huge-rdh-row-offset",
                        tagm(format!("row {k}: offset {:#X} link {} orbit {:#X}, the stream has offset {off:#X} link {} orbit {:#X}", row.off, row.link_id, row.orbit, p.rdh.link_id, p.rdh.orbit)),
                    );
                    return out;
                }
            }
        } else {
            // error messages: in ascending order of position, each at an RDH of the stream
            let errs = oracle::error_msgs(&r.stderr);
            let mut last = 0u64;
            for e in &errs {
                let Some(o) = e.offset else { continue };
                if o < last {
                    out.fail = fail(
                        "scan",
                        "huge-error-order",
                        tagm(format!("error messages are not in order of position: {o:#X} after {last:#X}")),
                    );
                    return out;
                }
                last = o;
                if !w.pkts.iter().any(|p| p.off as u64 == o % period) {
                    out.fail = fail("scan", "huge-error-offset", tagm(format!("error position {o:#X} is not the start of an RDH of the stream")));
                    return out;
                }
            }
            if errs.iter().filter(|e| e.offset.map_or(false, |o| o >= 1 << 32)).count() == 0 {
                ex.probe("huge_stream_without_error_beyond_4GiB");
            } else {
                ex.probe("huge_stream_errors_on_both_sides_of_4GiB");
            }
        }
    }
    out
}

pub fn run_scan(ex: &mut Executor, specs: &[ExecSpec], label: &str) -> TrialOutcome {
    if let Some(rep) = specs.first().and_then(|s| s.input_repeat).filter(|n| *n > 1) {
        return run_scan_huge(ex, specs, rep, label);
    }
    let mut out = TrialOutcome { labels: vec![label.to_string()], ..Default::default() };
    let input = &specs[0].input;
    let w = walk(input);
    for (i, spec) in specs.iter().enumerate() {
        let r = ex.exec(spec);
        if i == 0 {
            out.key = case_key(input, &r);
            out.nontrivial = w.pkts.len() >= 2 && r.outcome.threads >= 3;
        }
        if let Some(f) = check_orderly(&r) {
            out.fail = Some(f);
            return out;
        }
        let f = filter_of_argv(&spec.argv);
        let tag = |x: Option<Fail>| {
            x.map(|mut x| {
                x.message = format!("{} [cmd: {} ; {:?}]", x.message, spec.cmdline(), spec.input_mode);
                x
            })
        };
        let is = |a: &str| spec.argv.iter().any(|x| x == a);
        let verdict = if is("view") && is("rdh") {
            check_rdh_rows(&r, &w, f)
        } else if is("view") {
            check_data_view(&r, input, &w, f, is("its-readout-frames-data"))
        } else {
            // check mode with statistics: counters + every error offset is a walker offset
            let st = r.stats_file.as_ref().and_then(|b| oracle::parse_stats(b, &spec.stats_ext));
            match st {
                // word offsets are only defined when the payload layout agrees with the header's data
                // format (precondition of the statement): checked for the word-payload workloads only
                Some(st) => check_scan_stats(&st, &w, f).or_else(|| {
                    if label.starts_with("word payloads") {
                        check_error_offsets(&r, input, &w)
                    } else {
                        None
                    }
                }),
                None if input.is_empty() => None,
                None => fail("statistics", "stats-file-missing", "no statistics file was written".into()),
            }
        };
        if let Some(x) = tag(verdict) {
            out.fail = Some(x);
            return out;
        }
    }
    out
}

/// Every leading offset of an error message is an RDH start or a word-slot start of the walk.
pub fn check_error_offsets(r: &ExecResult, input: &[u8], w: &Walk) -> Option<Fail> {
    let errs = oracle::error_msgs(&r.stderr);
    if errs.is_empty() {
        return None;
    }
    let mut legal: std::collections::BTreeSet<u64> = std::collections::BTreeSet::new();
    for p in &w.pkts {
        legal.insert(p.off as u64);
        if let Ok(ws) = payload_words(&input[p.payload.clone()], p.rdh.data_format, p.payload.start) {
            for wd in ws {
                legal.insert(wd.off as u64);
            }
        }
    }
    for e in &errs {
        if let Some(o) = e.offset {
            if o >= input.len() as u64 || !legal.contains(&o) {
                return fail(
                    "offset",
                    "error-offset-not-a-word-or-rdh",
                    format!("message offset {o:#X} is not the start of an RDH or payload word: {}", crate::trials::clip_pub(&e.text)),
                );
            }
        }
    }
    None
}

/// C08 trial body.
pub fn run_filter_write(
    ex: &mut Executor,
    base: &ExecSpec,
    filters: &[Vec<String>],
    to_file: bool,
    label: &str,
) -> TrialOutcome {
    let mut out = TrialOutcome { labels: vec![label.to_string()], ..Default::default() };
    let input = &base.input;
    let w = walk(input);
    if let Some(rep) = base.input_repeat.filter(|n| *n > 1) {
        // more selected packets than the writer buffers (1024 * 1024 CDPs) in one run: the input delivered
        // `rep` times through the pipe seam; the output is the selected packets of one delivery, `rep` times
        for fargs in filters {
            let mut spec = base.clone();
            spec.argv.extend(fargs.iter().cloned());
            if to_file {
                spec.argv.extend(["-o".to_string(), "@OUT@".to_string()]);
            }
            let r = ex.exec(&spec);
            ex.fault("more_packets_than_the_writer_buffers");
            out.key = case_key(input, &r);
            out.nontrivial = r.outcome.threads >= 3;
            if let Some(f) = check_orderly(&r) {
                out.fail = Some(f);
                return out;
            }
            let f = filter_of_argv(&spec.argv);
            let mut one = Vec::new();
            let mut n_match = 0u64;
            for p in w.pkts.iter().filter(|p| f.matches(&p.rdh)) {
                one.extend_from_slice(&input[p.off..p.payload.end]);
                n_match += 1;
            }
            let got: &[u8] = if to_file { r.out_file.as_deref().unwrap_or(&[]) } else { &r.stdout };
            let want_len = one.len() as u64 * rep;
            let ok = got.len() as u64 == want_len && (one.is_empty() || got.chunks(one.len()).all(|c| c == one.as_slice()));
            if !ok {
                out.fail = fail(
                    "filter-output",
                    "huge-bytes-differ",
                    format!(
                        "filtered output has {} bytes, expected {want_len} ({} selected packets x {rep} deliveries) [cmd: {}]",
                        got.len(),
                        n_match,
                        spec.cmdline()
                    ),
                );
                return out;
            }
        }
        return out;
    }
    let mut total_out = 0usize;
    let mut partition_applicable = true;
    for (i, fargs) in filters.iter().enumerate() {
        let mut spec = base.clone();
        spec.argv.extend(fargs.iter().cloned());
        if to_file {
            let out_arg = if label.contains("file named stdout") { "@OUT:stdout@" } else { "@OUT@" };
            spec.argv.extend(["-o".to_string(), out_arg.to_string()]);
            spec.argv.extend(["-S".to_string(), "@STATS@".to_string(), "-D".to_string(), "json".to_string()]);
        }
        let r = ex.exec(&spec);
        if spec.custom_checks_toml.is_some() {
            ex.fault("end_of_run_expectation_fails_while_filtering");
        }
        if i == 0 {
            out.key = case_key(input, &r);
            out.nontrivial = w.pkts.len() >= 2 && r.outcome.threads >= 3;
        }
        if let Some(f) = check_orderly(&r) {
            out.fail = Some(f);
            return out;
        }
        let f = filter_of_argv(&spec.argv);
        let mut expected = Vec::new();
        let mut n_match = 0u64;
        for p in w.pkts.iter().filter(|p| f.matches(&p.rdh)) {
            expected.extend_from_slice(&input[p.off..p.payload.end]);
            n_match += 1;
        }
        let got: &[u8] = if to_file { r.out_file.as_deref().unwrap_or(&[]) } else { &r.stdout };
        let tag = |m: String| format!("{m} [cmd: {} ; {:?}]", spec.cmdline(), spec.input_mode);
        // an input the tool refuses before processing starts (empty: no first RDH) writes nothing: a
        // destination file left by an earlier run is then, rightly, not touched
        let refused_untouched = input.is_empty() && r.status != 0 && spec.stale_outputs.is_some();
        if refused_untouched {
            continue;
        }
        if got != expected.as_slice() {
            let pos = got.iter().zip(expected.iter()).position(|(a, b)| a != b).unwrap_or(got.len().min(expected.len()));
            out.fail = fail(
                "filter-output",
                "bytes-differ",
                tag(format!(
                    "filtered output has {} bytes, expected {} ({} matching packets); first difference at byte {pos}",
                    got.len(),
                    expected.len(),
                    n_match
                )),
            );
            return out;
        }
        total_out += got.len();
        if to_file {
            if let Some(st) = r.stats_file.as_ref().and_then(|b| oracle::parse_stats(b, "json")) {
                let got_n = oracle::stats_u64(&st, &["rdh_stats", "rdhs_filtered"]);
                if got_n != Some(n_match) {
                    out.fail = fail(
                        "filter-output",
                        "filter-stats-count",
                        tag(format!("Filter Stats count {got_n:?}, matching packets {n_match}")),
                    );
                    return out;
                }
            }
        }
        // an empty input is not recognisable as ALICE data: non-zero exit is the documented outcome
        // (with a custom expectation about the run that does not hold, the status is the exit contract's matter)
        if r.status != 0 && !input.is_empty() && spec.custom_checks_toml.is_none() {
            out.fail = fail("filter-output", "exit-status", tag(format!("exit status {}", r.status)));
            return out;
        }
        // the output is itself well framed
        let wo = walk(got);
        if wo.end != itsgen::walker::WalkEnd::Clean {
            out.fail = fail("filter-output", "output-not-well-framed", tag(format!("output walk ends with {:?}", wo.end)));
            return out;
        }
        // idempotence: filtering the output again reproduces it (first and last filter of the set)
        if (i == 0 || i + 1 == filters.len()) && !got.is_empty() {
            let mut again = spec.clone();
            again.input = got.to_vec();
            let r2 = ex.exec(&again);
            if let Some(f) = check_orderly(&r2) {
                out.fail = Some(f);
                return out;
            }
            let got2: &[u8] = if to_file { r2.out_file.as_deref().unwrap_or(&[]) } else { &r2.stdout };
            if got2 != got {
                out.fail = fail(
                    "filter-output",
                    "not-idempotent",
                    tag(format!("filtering the output again gives {} bytes instead of {}", got2.len(), got.len())),
                );
                return out;
            }
        }
        if n_match == 0 {
            partition_applicable &= true;
        }
    }
    // partition: `filters` holds every distinct value of one filter kind (+ possibly absent values)
    if partition_applicable && label.contains("partition") && total_out != input.len() {
        out.fail = fail(
            "filter-output",
            "not-a-partition",
            format!("outputs over all distinct filter values total {total_out} bytes, the input has {}", input.len()),
        );
    }
    out
}

/// C07 trial body: offsets, byte dumps and quoted RDH rows of every message against the input.
pub fn run_truthful(ex: &mut Executor, spec: &ExecSpec, label: &str) -> TrialOutcome {
    let r = ex.exec(spec);
    let input = &spec.input;
    let w = walk(input);
    let mut out = TrialOutcome { key: case_key(input, &r), labels: vec![label.to_string()], ..Default::default() };
    if let Some(f) = check_orderly(&r) {
        out.fail = Some(f);
        return out;
    }
    // messages: stderr (when not muted) and the statistics file
    let mut texts: Vec<String> = oracle::error_msgs(&r.stderr).into_iter().map(|e| e.text).collect();
    if let Some(st) = r.stats_file.as_ref().and_then(|b| oracle::parse_stats(b, &spec.stats_ext)) {
        for m in oracle::reported_errors(&st) {
            if !texts.contains(&m) {
                texts.push(m);
            }
        }
    }
    let mut rdh_at: std::collections::BTreeMap<u64, &itsgen::walker::Pkt> = std::collections::BTreeMap::new();
    let mut word_at: std::collections::BTreeSet<u64> = std::collections::BTreeSet::new();
    for p in &w.pkts {
        rdh_at.insert(p.off as u64, p);
        if let Ok(ws) = payload_words(&input[p.payload.clone()], p.rdh.data_format, p.payload.start) {
            for wd in ws {
                word_at.insert(wd.off as u64);
            }
        }
    }
    // Known quirk: the tool recognises the payload layout from the payload's bytes 10..15 (all zero
    // => 16-byte slots) instead of the header's data format. A format-2 payload whose second word
    // begins with six zero bytes (or a format-0 one whose bytes 10..15 are not all zero) is then cut
    // with the wrong slot size while offsets follow the header: violations inside such a packet get
    // their own site so that they can be told apart.
    let misdetected = |off: u64| -> bool {
        w.pkts.iter().any(|p| {
            let pl = &input[p.payload.clone()];
            let zero6 = pl.len() >= 16 && pl[10..16].iter().all(|&b| b == 0);
            let inside = off >= p.off as u64 && off < p.payload.end as u64;
            inside && ((p.rdh.data_format != 0 && zero6) || (p.rdh.data_format == 0 && pl.len() > 10 && !zero6))
        })
    };
    let mut checked = 0u64;
    for t in &texts {
        let e = oracle::parse_err_text(t);
        let Some(off) = e.offset else { continue };
        if t.starts_with("FATAL") {
            continue;
        }
        let tagm = |m: String| format!("{m} [cmd: {} ; {:?}]", spec.cmdline(), spec.input_mode);
        if off >= input.len() as u64 {
            out.fail = fail("truthful", "offset-outside-input", tagm(format!("offset {off:#X} >= input length {:#X}: {}", input.len(), crate::trials::clip_pub(t))));
            return out;
        }
        let first_line = t.lines().next().unwrap_or("");
        // byte dump at the end of the first line
        let dump = first_line.rfind('[').and_then(|i| {
            let inner = first_line[i + 1..].trim_end().trim_end_matches(']');
            let toks: Vec<&str> = inner.split_whitespace().collect();
            if toks.len() == 10 && toks.iter().all(|x| x.len() == 2 && u8::from_str_radix(x, 16).is_ok()) {
                Some(toks.iter().map(|x| u8::from_str_radix(x, 16).unwrap()).collect::<Vec<u8>>())
            } else {
                None
            }
        });
        let is_rdh_msg = t.contains("[E10]") || t.contains("[E11]") || t.contains("Payload error following RDH");
        if is_rdh_msg {
            let Some(p) = rdh_at.get(&off) else {
                out.fail = fail("truthful", "rdh-message-offset", tagm(format!("RDH message at {off:#X}, no RDH starts there: {}", crate::trials::clip_pub(t))));
                return out;
            };
            ex.probe("c07_rdh_messages_checked");
            // the `previous:` rows are the (at most two) RDHs that the same validator saw before this one: the
            // preceding selected packets of the same link (of the same FEE ID where stave checks dispatch by it)
            {
                let by_fee = spec.argv.iter().any(|a| a == "its-stave") && spec.argv.iter().any(|a| a == "all");
                let f = filter_of_argv(&spec.argv);
                let key = |q: &itsgen::walker::Pkt| if by_fee { q.rdh.fee_id as u32 } else { q.rdh.link_id as u32 };
                let grp: Vec<&itsgen::walker::Pkt> = w.pkts.iter().filter(|q| f.matches(&q.rdh) && key(q) == key(p)).collect();
                if let Some(i) = grp.iter().position(|q| q.off == p.off) {
                    let want: Vec<&&itsgen::walker::Pkt> = grp[i.saturating_sub(2)..i].iter().collect();
                    let rows: Vec<oracle::RdhRow> = t
                        .lines()
                        .filter(|l| l.trim_start().starts_with("previous:"))
                        .filter_map(|l| {
                            let body = l.trim_start().trim_start_matches("previous:").trim_start_matches(' ');
                            oracle::parse_rdh_row(&format!("0:  {}", body.trim_end()))
                        })
                        .collect();
                    let has_context = t.lines().any(|l| l.trim_start().starts_with("current :"));
                    if has_context {
                        let same = rows.len() == want.len()
                            && rows.iter().zip(want.iter()).all(|(r, q)| {
                                r.fee_id == q.rdh.fee_id as u64
                                    && r.link_id == q.rdh.link_id as u64
                                    && r.packet_counter == q.rdh.packet_counter as u64
                                    && r.orbit == q.rdh.orbit as u64
                                    && r.pages_counter == q.rdh.pages_counter as u64
                                    && r.stop_bit == q.rdh.stop_bit as u64
                            });
                        if !same {
                            out.fail = fail(
                                "truthful",
                                "previous-rows",
                                tagm(format!(
                                    "message at {off:#X}: {} `previous:` rows, {} RDHs of that link precede it among the selected packets (at most two are kept) or a row quotes another RDH",
                                    rows.len(),
                                    i
                                )),
                            );
                            return out;
                        }
                        ex.probe("c07_previous_rows_checked");
                    }
                }
            }
            if let Some(cur) = t.lines().find(|l| l.trim_start().starts_with("current :")) {
                let body = cur.trim_start().trim_start_matches("current :").trim_start_matches(' ');
                let body = body.split("<---").next().unwrap_or(body).trim_end();
                // the row is `  current :  <rdh>`: two spaces separate the label from the fields
                if let Some(row) = oracle::parse_rdh_row(&format!("0:  {body}")) {
                    let h = &p.rdh;
                    let pairs = [
                        ("version", h.version as u64, row.version),
                        ("fee_id", h.fee_id as u64, row.fee_id),
                        ("system_id", h.system_id as u64, row.system_id),
                        ("offset_next", h.offset_next as u64, row.offset_next),
                        ("link_id", h.link_id as u64, row.link_id),
                        ("packet_counter", h.packet_counter as u64, row.packet_counter),
                        ("bc", h.bc as u64, row.bc),
                        ("orbit", h.orbit as u64, row.orbit),
                        ("data_format", h.data_format as u64, row.data_format),
                        ("trigger_type", h.trigger_type as u64, row.trigger_type),
                        ("pages_counter", h.pages_counter as u64, row.pages_counter),
                        ("stop_bit", h.stop_bit as u64, row.stop_bit),
                        ("detector_field", h.detector_field as u64, row.detector_field),
                    ];
                    for (name, want, got) in pairs {
                        if want != got {
                            out.fail = fail(
                                "truthful",
                                &format!("current-row-{name}"),
                                tagm(format!("message at {off:#X}: `current :` row shows {name} = {got:#X}, the RDH there has {want:#X}")),
                            );
                            return out;
                        }
                    }
                    ex.probe("c07_current_rows_checked");
                }
            }
        } else {
            if !word_at.contains(&off) {
                let site = if misdetected(off) { "word-message-offset:layout-misdetected-from-bytes-10-15" } else { "word-message-offset" };
                out.fail = fail(
                    "truthful",
                    site,
                    tagm(format!("message offset {off:#X} is not the start of a payload word: {}", crate::trials::clip_pub(t))),
                );
                return out;
            }
            ex.probe("c07_word_messages_checked");
            if let Some(d) = dump {
                let o = off as usize;
                if o + 10 > input.len() || input[o..o + 10] != d[..] {
                    let site = if misdetected(off) { "byte-dump:layout-misdetected-from-bytes-10-15" } else { "byte-dump" };
                    out.fail = fail(
                        "truthful",
                        site,
                        tagm(format!(
                            "message at {off:#X} quotes {:02X?}, the input has {:02X?}",
                            d,
                            &input[o..(o + 10).min(input.len())]
                        )),
                    );
                    return out;
                }
                ex.probe("c07_byte_dumps_checked");
            }
            // an empty-frame message quotes the TDT that closes the frame: the bytes at the `ending at` offset
            if let (Some(i), Some(qpos)) = (
                t.find("Frame closing TDT ["),
                t.find("ending at 0x").and_then(|i| {
                    let hex: String = t[i + 12..].chars().take_while(|c| c.is_ascii_hexdigit()).collect();
                    u64::from_str_radix(&hex, 16).ok()
                }),
            ) {
                let inner: String = t[i + "Frame closing TDT [".len()..].chars().take_while(|c| *c != ']').collect();
                let toks: Vec<u8> = inner.split_whitespace().filter_map(|x| u8::from_str_radix(x, 16).ok()).collect();
                let o = qpos as usize;
                if toks.len() == 10 && o + 10 <= input.len() {
                    if input[o..o + 10] != toks[..] {
                        out.fail = fail(
                            "truthful",
                            "frame-closing-tdt-quote",
                            tagm(format!(
                                "frame message at {off:#X} quotes the closing TDT as {:02X?}; the word at its `ending at` offset {qpos:#X} is {:02X?}",
                                toks,
                                &input[o..o + 10]
                            )),
                        );
                        return out;
                    }
                    ex.probe("c07_closing_tdt_quotes_checked");
                }
            }
            if let Some(q) = t.find("ending at 0x").and_then(|i| {
                let hex: String = t[i + 12..].chars().take_while(|c| c.is_ascii_hexdigit()).collect();
                u64::from_str_radix(&hex, 16).ok()
            }) {
                if !word_at.contains(&q) {
                    out.fail = fail("truthful", "frame-end-offset", tagm(format!("frame message quotes end {q:#X}, not a word start")));
                    return out;
                }
            }
        }
        checked += 1;
    }
    out.nontrivial = checked >= 1;
    out
}
