//! C09: seeded walks over the ITS word alphabet, with illegal-word injection, driven through the
//! real `ItsPayloadFsmContinuous::advance` and the real `CdpRunningValidator::check` in-process and
//! compared step by step with the diagram model (`itsgen::models::diagram_step`).

use crate::framework::{Executor, Fail, TrialOutcome};
use crate::oracle;
use alice_protocol_reader::prelude::*;
use clap::Parser;
use fastpasta::analyze::validators::its::cdp_running::CdpRunningValidator;
use fastpasta::analyze::validators::its::its_payload_fsm_cont::{AmbigiousError, ItsPayloadFsmContinuous};
use fastpasta::analyze::validators::its::lib::ItsPayloadWord;
use fastpasta::config::Cfg;
use fastpasta::stats::StatType;
use fpsim_rt::rng::hash_bytes;
use itsgen::models::{diagram_step, Class, St, Step};
use itsgen::rdh::Rdh;
use std::sync::OnceLock;

static CFG_ALL_ITS: OnceLock<Cfg> = OnceLock::new();

fn cfg() -> &'static Cfg {
    CFG_ALL_ITS.get_or_init(|| Cfg::try_parse_from(["fastpasta", "check", "all", "its"]).expect("static cfg"))
}

fn class_of(w: &Result<ItsPayloadWord, AmbigiousError>) -> Option<Class> {
    Some(match w.as_ref().ok()? {
        ItsPayloadWord::IHW => Class::Ihw,
        ItsPayloadWord::IHW_continuation => Class::IhwContinuation,
        ItsPayloadWord::TDH => Class::Tdh,
        ItsPayloadWord::TDH_continuation => Class::TdhContinuation,
        ItsPayloadWord::TDH_after_packet_done => Class::TdhAfterPacketDone,
        ItsPayloadWord::TDT => Class::Tdt,
        ItsPayloadWord::CDW => Class::Cdw,
        ItsPayloadWord::DataWord => Class::Data,
        ItsPayloadWord::DDW0 => Class::Ddw0,
    })
}

fn kind_idx(id: u8) -> u64 {
    use itsgen::words::Kind;
    match itsgen::words::kind_of_id(id) {
        Kind::Ihw => 0,
        Kind::Tdh => 1,
        Kind::Tdt => 2,
        Kind::Ddw0 => 3,
        Kind::Cdw => 4,
        Kind::Data => 5,
        Kind::Unknown => 6,
    }
}

pub fn run_fsm_walk(ex: &mut Executor, words: &[u8], packet_lens: &[u32], label: &str) -> TrialOutcome {
    let mut out = TrialOutcome {
        nontrivial: words.len() >= 20,
        key: hash_bytes(words),
        labels: vec![label.to_string()],
        ..Default::default()
    };
    let res = std::panic::catch_unwind(std::panic::AssertUnwindSafe(|| walk(words, packet_lens)));
    match res {
        Ok(Ok(cov)) => {
            for t in cov {
                ex.acc.traces.insert(t); // distinct (impl state, model state, word kind, legal) tuples
            }
            ex.acc.steps += (words.len() / 10) as u64;
        }
        Ok(Err(f)) => out.fail = Some(f),
        Err(p) => {
            let msg = p
                .downcast_ref::<String>()
                .cloned()
                .or_else(|| p.downcast_ref::<&str>().map(|s| s.to_string()))
                .unwrap_or_else(|| "panic".into());
            out.fail = Some(Fail::new("panic", "in-process-fsm-walk", msg));
        }
    }
    out
}

/// Returns the coverage tuples reached, or the first disagreement.
fn walk(words: &[u8], packet_lens: &[u32]) -> Result<Vec<u64>, Fail> {
    let mut cov = Vec::new();
    // --- half 1: the state machine alone
    let mut fsm = ItsPayloadFsmContinuous::new();
    let mut model = St::Ihw;
    for (i, w) in words.chunks_exact(10).enumerate() {
        let impl_before = fsm.verif_state_id();
        if St::from_id(impl_before) != Some(model) {
            return Err(Fail::new(
                "fsm",
                "state-divergence",
                format!("before word {i}: implementation in state {impl_before}, diagram in {model:?}"),
            ));
        }
        let got = fsm.advance(w);
        let step = diagram_step(model, w);
        let legal = matches!(step, Step::Legal(..));
        cov.push(fpsim_rt::rng::mix(&[impl_before as u64, model as u64, kind_idx(w[9]), legal as u64]));
        match step {
            Step::Legal(class, next) => {
                if class_of(&got) != Some(class) {
                    return Err(Fail::new(
                        "fsm",
                        "classification",
                        format!(
                            "word {i} {:02X?} in state {model:?}: diagram says {class:?}, implementation returned {}",
                            w,
                            match &got {
                                Ok(x) => format!("{x:?}"),
                                Err(e) => format!("ambiguous {e:?}"),
                            }
                        ),
                    ));
                }
                let after = fsm.verif_state_id();
                if St::from_id(after) != Some(next) {
                    return Err(Fail::new(
                        "fsm",
                        "successor",
                        format!("word {i} {:02X?} in state {model:?}: diagram successor {next:?}, implementation went to state {after}", w),
                    ));
                }
                model = next;
            }
            Step::Illegal(_) => {
                let after = fsm.verif_state_id();
                // single-successor states: the word is taken as the expected one, the successor is the diagram's
                if let Some(next) = itsgen::models::diagram_successor_after_illegal(model, w) {
                    if St::from_id(after) != Some(next) {
                        return Err(Fail::new(
                            "fsm",
                            "successor-after-illegal-word",
                            format!(
                                "word {i} {:02X?} (not legal in the single-successor state {model:?}, taken as the expected word): diagram successor {next:?}, implementation went to state {after}",
                                w
                            ),
                        ));
                    }
                }
                // choice states: the successor after an illegal word is not prescribed - follow the implementation
                model = St::from_id(after).unwrap_or(St::Ihw);
            }
        }
    }
    // --- half 2: the payload validator: an illegal word is never silently accepted
    let (tx, rx) = flume::unbounded::<StatType>();
    let mut v: CdpRunningValidator<RdhCru, Cfg> = CdpRunningValidator::new(cfg(), tx.clone());
    let mut model = St::Ihw;
    let mut fsm_shadow = ItsPayloadFsmContinuous::new();
    let mut pos: u64 = 0;
    let mut wi = 0usize;
    let all: Vec<&[u8]> = words.chunks_exact(10).collect();
    // The state is carried from packet to packet whatever the headers say (only a payload error
    // resets it): header fields are drawn per packet - page counter back to 0, stop bit set, new orbit,
    // other trigger bits - from a generator seeded by the word sequence itself.
    let mut hrng = fpsim_rt::rng::Rng::new(fpsim_rt::rng::hash_bytes(words));
    for (pi, &n) in packet_lens.iter().enumerate() {
        let n = n as usize;
        let rdh = Rdh {
            data_format: 2,
            memory_size: (64 + n * 10) as u16,
            offset_next: (64 + n * 10) as u16,
            pages_counter: match hrng.below(4) {
                0 => 0,
                1 => 1,
                2 => pi as u16,
                _ => hrng.below(300) as u16,
            },
            stop_bit: if hrng.chance(1, 4) { 1 } else { 0 },
            orbit: hrng.next_u32(),
            trigger_type: *hrng.pick(&[0x6A03u32, 0x4813, 0x10, 0x1, 0x893]),
            fee_id: 0x000C,
            ..Default::default()
        };
        // 1 packet in 8 is preceded by a packet whose payload ends in more than 15 bytes of 0xFF: a payload
        // error, after which the next packet is judged from the initial state (the real entry point
        // `do_payload_checks` does the reset)
        if pi > 0 && hrng.chance(1, 8) {
            let junk = vec![0xFFu8; 16 + hrng.usize_below(24)];
            let mut bad = rdh.clone();
            bad.memory_size = (64 + junk.len()) as u16;
            bad.offset_next = bad.memory_size;
            let bytes = bad.to_bytes();
            let r: RdhCru = RdhCru::load(&mut &bytes[..]).expect("rdh");
            fastpasta::analyze::validators::its::lib::do_payload_checks((&r, &junk[..], pos), &tx, &mut v).expect("stats channel");
            let mut msgs: Vec<String> = Vec::new();
            while let Ok(m) = rx.try_recv() {
                if let StatType::Error(e) = m {
                    msgs.push(oracle::strip_ansi(&e));
                }
            }
            let want_prefix = format!("{:#X}: Payload error following RDH", pos);
            if msgs.len() != 1 || !msgs[0].starts_with(&want_prefix) {
                return Err(Fail::new(
                    "fsm",
                    "excess-padding-payload",
                    format!("a payload of {} bytes of 0xFF at {pos:#X}: expected exactly one payload error there, messages: {msgs:?}", junk.len()),
                ));
            }
            model = St::Ihw;
            let _ = fsm_shadow.reset_fsm();
            pos += 64 + junk.len() as u64;
        }
        let n = n.min(all.len() - wi.min(all.len()));
        if n == 0 {
            break;
        }
        // 1 packet in 3 (of at least two words) in data format 0: every word in a 16-byte slot, six filler bytes
        // of 0x00 behind it, no trailing padding - one link may change its data format from packet to packet
        let fmt0 = n >= 2 && hrng.chance(1, 3);
        let stride: u64 = if fmt0 { 16 } else { 10 };
        let mut payload: Vec<u8> = Vec::with_capacity(n * 16 + 16);
        for w in &all[wi..wi + n] {
            payload.extend_from_slice(w);
            if fmt0 {
                payload.extend_from_slice(&[0u8; 6]);
            }
        }
        let last_id_ff = !fmt0 && payload.last() == Some(&0xFF);
        let pad = if fmt0 {
            0
        } else if hrng.chance(1, 2) {
            (16 - payload.len() % 16) % 16
        } else {
            hrng.usize_below(16)
        };
        payload.extend(std::iter::repeat(0xFFu8).take(pad));
        // Not judged (followed blindly): a packet whose last word has the ID byte 0xFF (it merges with the
        // padding) and a packet whose bytes 10..15 are all zero (the layout is recognised from them: known
        // finding of C07)
        if last_id_ff || (!fmt0 && payload.len() >= 16 && payload[10..16].iter().all(|&b| b == 0)) {
            let mut hdr = rdh.clone();
            hdr.memory_size = (64 + payload.len()) as u16;
            hdr.offset_next = hdr.memory_size;
            let r: RdhCru = RdhCru::load(&mut &hdr.to_bytes()[..]).expect("rdh");
            fastpasta::analyze::validators::its::lib::do_payload_checks((&r, &payload[..], pos), &tx, &mut v).expect("stats channel");
            while rx.try_recv().is_ok() {}
            // the shadow machine sees what the validator saw: the words the real cutting produces
            match fastpasta::analyze::validators::lib::preprocess_payload(&payload) {
                Ok(chunks) => {
                    for c in chunks {
                        let _ = fsm_shadow.advance(&c[..10]);
                    }
                }
                Err(_) => {
                    let _ = fsm_shadow.reset_fsm();
                }
            }
            model = St::from_id(fsm_shadow.verif_state_id()).unwrap_or(St::Ihw);
            wi += n;
            pos += 64 + payload.len() as u64;
            continue;
        }
        let mut hdr = rdh.clone();
        hdr.data_format = if fmt0 { 0 } else { 2 };
        hdr.memory_size = (64 + payload.len()) as u16;
        hdr.offset_next = hdr.memory_size;
        let bytes = hdr.to_bytes();
        let r: RdhCru = RdhCru::load(&mut &bytes[..]).expect("rdh");
        fastpasta::analyze::validators::its::lib::do_payload_checks((&r, &payload[..], pos), &tx, &mut v).expect("stats channel");
        let mut all_msgs: Vec<String> = Vec::new();
        while let Ok(m) = rx.try_recv() {
            if let StatType::Error(e) = m {
                all_msgs.push(oracle::strip_ansi(&e));
            }
        }
        for k in 0..n {
            let w = all[wi];
            let word_off = pos + 64 + (k as u64) * stride;
            let step = diagram_step(model, w);
            let _ = fsm_shadow.advance(w);
            let want_prefix = format!("{:#X}: ", word_off);
            let msgs: Vec<&String> = all_msgs.iter().filter(|m| m.starts_with(&want_prefix)).collect();
            match step {
                Step::Legal(_, next) => {
                    // a legal word must not be reported as an unrecognised ID
                    if let Some(m) = msgs.iter().find(|m| m.contains("[E990]") || m.contains("[E991]") || m.contains("[E992]")) {
                        return Err(Fail::new(
                            "fsm",
                            "legal-word-reported-unrecognised",
                            format!("word {wi} {:02X?} is legal in {model:?} but was reported: {m}", w),
                        ));
                    }
                    // nor as carrying the wrong identifier for the state the validator believes to be in
                    if let Some(m) = msgs.iter().find(|m| m.contains("ID is not 0x")) {
                        return Err(Fail::new(
                            "fsm",
                            "legal-word-reported-wrong-id",
                            format!("word {wi} {:02X?} is the word the diagram expects in {model:?} but was reported: {m}", w),
                        ));
                    }
                    model = next;
                }
                Step::Illegal(fam) => {
                    let hit = msgs.iter().any(|m| m.contains(&format!("[{}]", fam.code())));
                    if !hit {
                        return Err(Fail::new(
                            "fsm",
                            &format!("illegal-word-silently-accepted-{}", fam.code()),
                            format!(
                                "word {wi} {:02X?} (ID {:#04X}) is illegal in state {model:?}: expected [{}] at {word_off:#X}, messages there: {:?}",
                                w, w[9], fam.code(), msgs
                            ),
                        ));
                    }
                    model = St::from_id(fsm_shadow.verif_state_id()).unwrap_or(St::Ihw);
                }
            }
            wi += 1;
        }
        pos += 64 + payload.len() as u64;
    }
    Ok(cov)
}
