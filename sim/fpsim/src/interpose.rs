//! libc-level I/O seam. These definitions live in the executable, so std's calls to `read`, `write`,
//! `readv`, `writev` bind to them. Calls from threads the scheduler does not manage, or outside a
//! run, go straight to the raw system call.

use fpsim_rt::io::{self as sio, ReadAction, WriteAction};
use libc::{c_int, c_void, iovec, size_t, ssize_t};

#[inline]
unsafe fn set_errno(e: i32) {
    *libc::__errno_location() = e;
}

#[inline]
unsafe fn raw_write(fd: c_int, buf: *const c_void, count: size_t) -> ssize_t {
    libc::syscall(libc::SYS_write, fd, buf, count) as ssize_t
}

#[inline]
unsafe fn raw_read(fd: c_int, buf: *mut c_void, count: size_t) -> ssize_t {
    libc::syscall(libc::SYS_read, fd, buf, count) as ssize_t
}

/// Write bypassing the seam (harness's own output).
pub fn write_raw_fd(fd: i32, data: &[u8]) {
    let mut off = 0;
    while off < data.len() {
        let n = unsafe { raw_write(fd, data[off..].as_ptr() as *const c_void, data.len() - off) };
        if n <= 0 {
            if n < 0 && std::io::Error::last_os_error().kind() == std::io::ErrorKind::Interrupted {
                continue;
            }
            break;
        }
        off += n as usize;
    }
}

#[no_mangle]
pub unsafe extern "C" fn write(fd: c_int, buf: *const c_void, count: size_t) -> ssize_t {
    if (fd == 1 || fd == 2) && sio::is_active() {
        let data = std::slice::from_raw_parts(buf as *const u8, count);
        match sio::on_write(fd, data) {
            WriteAction::Pass => {}
            WriteAction::Done(n) => return n as ssize_t,
            WriteAction::Fail(e) => {
                set_errno(e);
                return -1;
            }
        }
    }
    raw_write(fd, buf, count)
}

#[no_mangle]
pub unsafe extern "C" fn writev(fd: c_int, iov: *const iovec, iovcnt: c_int) -> ssize_t {
    if (fd == 1 || fd == 2) && sio::is_active() {
        // gather, then treat as one write (a short count is legal for writev)
        let mut data = Vec::new();
        for i in 0..iovcnt as usize {
            let v = &*iov.add(i);
            if v.iov_len > 0 {
                data.extend_from_slice(std::slice::from_raw_parts(v.iov_base as *const u8, v.iov_len));
            }
        }
        match sio::on_write(fd, &data) {
            WriteAction::Pass => {}
            WriteAction::Done(n) => return n as ssize_t,
            WriteAction::Fail(e) => {
                set_errno(e);
                return -1;
            }
        }
    }
    libc::syscall(libc::SYS_writev, fd, iov, iovcnt) as ssize_t
}

unsafe fn is_input_file(fd: c_int) -> (bool, Option<u64>) {
    if fd <= 2 {
        return (false, None);
    }
    let id = match sio_input_file() {
        Some(id) => id,
        None => return (false, None),
    };
    let mut st: libc::stat = std::mem::zeroed();
    if libc::fstat(fd, &mut st) != 0 {
        return (false, None);
    }
    if (st.st_dev as u64, st.st_ino as u64) != id {
        return (false, None);
    }
    let pos = libc::lseek(fd, 0, libc::SEEK_CUR);
    (true, if pos >= 0 { Some(pos as u64) } else { None })
}

fn sio_input_file() -> Option<(u64, u64)> {
    sio::input_file_id()
}

#[no_mangle]
pub unsafe extern "C" fn read(fd: c_int, buf: *mut c_void, count: size_t) -> ssize_t {
    if sio::is_active() {
        let (is_in, pos) = is_input_file(fd);
        if fd == 0 || is_in {
            let slice = std::slice::from_raw_parts_mut(buf as *mut u8, count);
            match sio::on_read(fd, slice, is_in, pos) {
                ReadAction::Pass => {}
                ReadAction::PassLimited(k) => {
                    let n = raw_read(fd, buf, k);
                    if n > 0 {
                        sio::note_file_read(n as usize);
                    }
                    return n;
                }
                ReadAction::Done(n) => return n as ssize_t,
                ReadAction::Fail(e) => {
                    set_errno(e);
                    return -1;
                }
                ReadAction::Stall => fpsim_rt::sched::stall_forever(),
            }
        }
    }
    raw_read(fd, buf, count)
}

#[no_mangle]
pub unsafe extern "C" fn readv(fd: c_int, iov: *const iovec, iovcnt: c_int) -> ssize_t {
    if sio::is_active() {
        let (is_in, _) = is_input_file(fd);
        if fd == 0 || is_in {
            // serve the first non-empty buffer only: a short count is legal for readv
            for i in 0..iovcnt as usize {
                let v = &*iov.add(i);
                if v.iov_len > 0 {
                    return read(fd, v.iov_base, v.iov_len);
                }
            }
            return 0;
        }
    }
    libc::syscall(libc::SYS_readv, fd, iov, iovcnt) as ssize_t
}

/// Clock seam: readings of the monotonic clocks by managed threads carry the injected forward skew
/// (fault kind "clock jump"). std's `Instant::now()` binds here.
#[no_mangle]
pub unsafe extern "C" fn clock_gettime(clk: libc::clockid_t, ts: *mut libc::timespec) -> c_int {
    let r = libc::syscall(libc::SYS_clock_gettime, clk, ts) as c_int;
    if r == 0
        && !ts.is_null()
        && (clk == libc::CLOCK_MONOTONIC || clk == libc::CLOCK_MONOTONIC_RAW || clk == libc::CLOCK_BOOTTIME)
        && sio::is_active()
    {
        let skew = sio::clock_skew_ns();
        if skew != 0 {
            let t = &mut *ts;
            let total = t.tv_nsec as u64 + skew % 1_000_000_000;
            t.tv_sec += (skew / 1_000_000_000) as libc::time_t + (total / 1_000_000_000) as libc::time_t;
            t.tv_nsec = (total % 1_000_000_000) as _;
        }
    }
    r
}

/// Entropy seam: std seeds every thread's `RandomState` (iteration order of HashMap / HashSet) from
/// `getrandom`. Inside a run the bytes come from the run's own seed, so that an order that leaks from a
/// hash table into an output is part of the replayable execution - and differs between runs with
/// different schedule seeds, as it differs between processes in real life.
#[no_mangle]
pub unsafe extern "C" fn getrandom(buf: *mut c_void, buflen: size_t, flags: libc::c_uint) -> ssize_t {
    if sio::is_active() && !buf.is_null() {
        if let Some(mut x) = sio::entropy_next() {
            let out = std::slice::from_raw_parts_mut(buf as *mut u8, buflen);
            for b in out.iter_mut() {
                x ^= x << 13;
                x ^= x >> 7;
                x ^= x << 17;
                *b = (x >> 24) as u8;
            }
            return buflen as ssize_t;
        }
    }
    libc::syscall(libc::SYS_getrandom, buf, buflen, flags) as ssize_t
}
