//! C15: statistics files round-trip and detect any drift.

use crate::exec::{ExecResult, ExecSpec};
use crate::framework::{case_key, Executor, Fail, TrialOutcome};
use crate::oracle;
use crate::trials::{check_orderly, clip_pub};
use serde_json::Value;

fn mismatch_reported(r: &ExecResult) -> bool {
    oracle::log_messages(&r.stderr).iter().any(|m| {
        (m.level == "WARN" && m.text.contains("Input stats did not match collected stats"))
            || (m.level == "ERROR" && m.text.contains("mismatch!"))
    })
}

/// Leaves of the statistics document that the run also collects and compares.
fn leaves(v: &Value, path: &mut Vec<String>, out: &mut Vec<Vec<String>>) {
    match v {
        Value::Object(m) => {
            for (k, x) in m {
                path.push(k.clone());
                leaves(x, path, out);
                path.pop();
            }
        }
        Value::Array(a) => {
            for (i, x) in a.iter().enumerate() {
                path.push(i.to_string());
                leaves(x, path, out);
                path.pop();
            }
        }
        _ => out.push(path.clone()),
    }
}

fn get_mut<'a>(v: &'a mut Value, path: &[String]) -> Option<&'a mut Value> {
    let mut cur = v;
    for p in path {
        cur = match cur {
            Value::Object(m) => m.get_mut(p)?,
            Value::Array(a) => a.get_mut(p.parse::<usize>().ok()?)?,
            _ => return None,
        };
    }
    Some(cur)
}

const SYSTEMS: [&str; 4] = ["TPC", "ITS", "MFT", "TOF"];

/// Perturb one leaf so that the document stays a valid statistics file. None = leaf not perturbed
/// (not a collected statistic).
fn perturb(doc: &Value, path: &[String]) -> Option<Value> {
    let last = path.last().map(|s| s.as_str()).unwrap_or("");
    if last == "is_finalized" {
        return None; // bookkeeping flag, not a statistic (not compared)
    }
    if path.first().map(|s| s.as_str()) == Some("alpide_stats") && path.len() == 1 {
        return None; // absent ALPIDE stats: adding them is documented as a warning only
    }
    let mut d = doc.clone();
    let leaf = get_mut(&mut d, path)?;
    let new = match leaf.clone() {
        Value::Number(n) => {
            let x = n.as_i64()?;
            Value::from(if x > 0 { x - 1 } else { x + 1 })
        }
        Value::String(s) => {
            if path.iter().any(|p| p == "system_id") {
                Value::from(*SYSTEMS.iter().find(|x| **x != s).unwrap())
            } else {
                Value::from(format!("{s}~"))
            }
        }
        Value::Bool(b) => Value::from(!b),
        Value::Null => match last {
            "fatal_error" => Value::from("made up fatal"),
            "rdh_version" | "data_format" => Value::from(1),
            "system_id" => Value::from("TPC"),
            "run_trigger_type" => serde_json::json!([1, "x"]),
            "staves_with_errors" => serde_json::json!([[0, 1]]),
            _ => return None,
        },
        _ => return None,
    };
    *leaf = new;
    Some(d)
}

/// Perturb one numeric or system-name leaf to a value that does not fit the field at all (negative, beyond 8 /
/// 32 bits, an unknown system name): a change of that statistic like any other.
fn perturb_out_of_range(doc: &Value, path: &[String], k: usize) -> Option<Value> {
    let last = path.last().map(|s| s.as_str()).unwrap_or("");
    if last == "is_finalized" {
        return None;
    }
    let mut d = doc.clone();
    let leaf = get_mut(&mut d, path)?;
    let new = match leaf.clone() {
        Value::Number(_) => match k % 3 {
            0 => Value::from(-1i64),
            1 => Value::from(4_294_967_296i64),
            _ => Value::from(256i64),
        },
        Value::String(_) if path.iter().any(|p| p == "system_id") => Value::from("XYZ"),
        _ => return None,
    };
    *leaf = new;
    Some(d)
}

fn render(doc: &Value, ext: &str) -> Option<String> {
    if ext == "toml" {
        toml::to_string(doc).ok()
    } else {
        serde_json::to_string_pretty(doc).ok()
    }
}

pub fn run_stats_rt(
    ex: &mut Executor,
    a: &ExecSpec,
    b: &ExecSpec,
    exit_code: i32,
    enumerate_leaves: bool,
    label: &str,
) -> TrialOutcome {
    let mut out = TrialOutcome { labels: vec![label.to_string()], ..Default::default() };
    let fail = |site: &str, m: String| Some(Fail::new("stats-round-trip", site, m));
    let ra = ex.exec(a);
    out.key = case_key(&a.input, &ra);
    out.nontrivial = ra.outcome.threads >= 3;
    if let Some(f) = check_orderly(&ra) {
        out.fail = Some(f);
        return out;
    }
    let Some(stats_bytes) = ra.stats_file.clone() else {
        out.fail = fail("no-stats-file", format!("run A wrote no statistics file [cmd: {}]", a.cmdline()));
        return out;
    };
    let stats_text = String::from_utf8_lossy(&stats_bytes).into_owned();
    let ext = a.stats_ext.clone();
    // --- round trip under another schedule
    let mut bb = b.clone();
    bb.input_stats = Some(stats_text.clone());
    bb.input_stats_ext = ext.clone();
    let rb = ex.exec(&bb);
    if let Some(f) = check_orderly(&rb) {
        out.fail = Some(f);
        return out;
    }
    let fatal = oracle::has_fatal(&ra.stderr) || oracle::has_fatal(&rb.stderr);
    let init_failed = |r: &ExecResult| {
        oracle::log_messages(&r.stderr).iter().any(|m| m.level == "ERROR" && m.text.starts_with("Init processing failed"))
    };
    if mismatch_reported(&rb) || rb.status != ra.status {
        let m = oracle::log_messages(&rb.stderr)
            .into_iter()
            .find(|m| m.text.contains("mismatch") || m.text.contains("did not match"))
            .map(|m| clip_pub(&m.text));
        // After a fatal input error the collector ignores the errors that arrive later, and the stop
        // flag cuts the analysis short: which errors of the packets read before the fatal position
        // were counted depends on thread scheduling (known finding; its own site).
        let site = if fatal { "round-trip-mismatch:after-fatal-input-error" } else { "round-trip-mismatch" };
        out.fail = fail(
            site,
            format!(
                "the file written by `{}` is not accepted by `{}`: status {} vs {}, message: {m:?}",
                a.cmdline(),
                bb.cmdline(),
                ra.status,
                rb.status
            ),
        );
        return out;
    }
    let Some(doc) = oracle::parse_stats(&stats_bytes, &ext) else {
        out.fail = fail("stats-file-unparsable", format!("written {ext} statistics file cannot be parsed"));
        return out;
    };
    if init_failed(&ra) {
        // unrecognisable input: nothing was processed, there is no collected statistic to drift
        return out;
    }
    // --- drift: the input changes so that a collected statistic differs (one more packet); after a
    // fatal input error processing stops there and the added packet is never reached
    if !fatal {
        let w = itsgen::walker::walk(&a.input);
        if let Some(last) = w.pkts.last() {
            // only when the reader gets to the end of the input: a framing failure before that (cut
            // packet, offset-to-next out of range) stops the read and nothing appended is reached
            // (a memory size below the header size makes the payload length meaningless: same effect)
            // and a memory size that differs from the offset-to-next desynchronises a payload-loading read)
            let framed = w.end == itsgen::walker::WalkEnd::Clean
                && w.pkts.iter().all(|p| p.rdh.memory_size >= 64 && p.rdh.memory_size == p.rdh.offset_next);
            if last.complete && framed {
                let mut c = bb.clone();
                let pkt = a.input[last.off..].to_vec();
                c.input.extend_from_slice(&pkt);
                let rc = ex.exec(&c);
                ex.fault("input_changed_after_stats_were_written");
                if let Some(f) = check_orderly(&rc) {
                    out.fail = Some(f);
                    return out;
                }
                if !mismatch_reported(&rc) || rc.status != exit_code {
                    out.fail = fail(
                        "input-drift-not-reported",
                        format!("input grew by one packet: mismatch reported = {}, status {} (expected {exit_code}) [cmd: {}]", mismatch_reported(&rc), rc.status, c.cmdline()),
                    );
                    return out;
                }
            }
        }
    }
    // --- a stored byte of the file goes bad (0xFF: no text at all any more): whatever statistic it belonged to no
    // longer has its value
    if !fatal && !stats_text.is_empty() {
        let mut c = bb.clone();
        c.input_stats_bad_byte_at = Some(out.key as usize);
        let rc = ex.exec(&c);
        ex.fault("stored_byte_of_the_statistics_file_goes_bad");
        if let Some(f) = check_orderly(&rc) {
            out.fail = Some(f);
            return out;
        }
        if !mismatch_reported(&rc) || rc.status != exit_code {
            out.fail = fail(
                "bad-stored-byte-not-reported",
                format!(
                    "byte {} of the statistics file set to 0xFF: mismatch reported = {}, status {} (expected {exit_code}) [cmd: {}]",
                    out.key as usize % stats_text.len(),
                    mismatch_reported(&rc),
                    rc.status,
                    c.cmdline()
                ),
            );
            return out;
        }
    }
    // --- the run writes its statistics to the very file it compares with ("verify, then refresh the baseline"):
    // a changed statistic in that file is still a mismatch
    if !fatal && !bb.argv.iter().any(|x| x == "-S" || x == "--output-stats") {
        let path: Vec<String> = vec!["rdh_stats".into(), "rdhs_seen".into()];
        if let Some(text) = perturb(&doc, &path).and_then(|d| render(&d, &ext)) {
            let mut c = bb.clone();
            c.input_stats = Some(text);
            c.argv.extend(["-S".to_string(), "@INSTATS@".to_string(), "-D".to_string(), ext.clone()]);
            let rc = ex.exec(&c);
            ex.fault("stored_statistic_perturbed_in_the_file_the_run_also_writes");
            if let Some(f) = check_orderly(&rc) {
                out.fail = Some(f);
                return out;
            }
            if !mismatch_reported(&rc) || rc.status != exit_code {
                out.fail = fail(
                    "leaf-drift-not-reported-when-the-run-writes-the-same-file:rdh_stats.rdhs_seen",
                    format!(
                        "rdhs_seen changed in the file that the run compares with and writes to: mismatch reported = {}, status {} (expected {exit_code}) [cmd: {}]",
                        mismatch_reported(&rc),
                        rc.status,
                        c.cmdline()
                    ),
                );
                return out;
            }
        }
    }
    // --- drift seen by a run that collects less: a file written by the stave checks (it holds ALPIDE statistics)
    // compared by the same check without the stave level - what both collect must still be compared
    if !fatal && a.argv.iter().any(|x| x == "its-stave") && a.argv.iter().any(|x| x == "all") {
        let mut c = bb.clone();
        let mut argv: Vec<String> = Vec::new();
        let mut skip = 0;
        for x in c.argv.iter() {
            if skip > 0 {
                skip -= 1;
                continue;
            }
            if x == "-s" || x == "-p" {
                skip = 1;
                continue;
            }
            argv.push(if x == "its-stave" { "its".to_string() } else { x.clone() });
        }
        c.argv = argv;
        let path: Vec<String> = vec!["rdh_stats".into(), "rdhs_seen".into()];
        if let Some(d) = perturb(&doc, &path) {
            if let Some(text) = render(&d, &ext) {
                c.input_stats = Some(text);
                let rc = ex.exec(&c);
                ex.fault("stored_statistic_perturbed_read_by_a_run_that_collects_less");
                if let Some(f) = check_orderly(&rc) {
                    out.fail = Some(f);
                    return out;
                }
                if !mismatch_reported(&rc) || rc.status != exit_code {
                    out.fail = fail(
                        "leaf-drift-not-reported-by-a-run-that-collects-less:rdh_stats.rdhs_seen",
                        format!(
                            "rdhs_seen changed in a file written by the stave checks, compared by `{}`: mismatch reported = {}, status {} (expected {exit_code})",
                            c.cmdline(),
                            mismatch_reported(&rc),
                            rc.status
                        ),
                    );
                    return out;
                }
            }
        }
    }
    // --- drift: two neighbouring entries of a stored list change places (every list of scalars whose first two
    // entries differ): the statistic is the list as written, order included
    {
        fn lists(v: &Value, path: &mut Vec<String>, out: &mut Vec<Vec<String>>) {
            match v {
                Value::Object(m) => {
                    for (k, x) in m {
                        path.push(k.clone());
                        lists(x, path, out);
                        path.pop();
                    }
                }
                Value::Array(a) => {
                    if a.len() >= 2 && a.iter().all(|x| x.is_number() || x.is_string()) && a[0] != a[1] {
                        out.push(path.clone());
                    }
                }
                _ => {}
            }
        }
        let mut lp = Vec::new();
        lists(&doc, &mut Vec::new(), &mut lp);
        for path in lp {
            // (message lists are compared as sets of lines by design of the messages' order key: left to the leaves)
            if path.iter().any(|p| p == "reported_errors" || p == "custom_checks_stats_errors") {
                continue;
            }
            let mut d = doc.clone();
            if let Some(Value::Array(a)) = get_mut(&mut d, &path) {
                a.swap(0, 1);
            }
            let Some(text) = render(&d, &ext) else { continue };
            let mut c = bb.clone();
            c.input_stats = Some(text);
            let rc = ex.exec(&c);
            ex.fault("stored_list_entries_swapped");
            if let Some(f) = check_orderly(&rc) {
                out.fail = Some(f);
                return out;
            }
            if !mismatch_reported(&rc) || rc.status != exit_code {
                out.fail = fail(
                    &format!("list-order-drift-not-reported:{}", path.join(".")),
                    format!(
                        "the first two entries of {} changed places in the stored file: mismatch reported = {}, status {} (expected {exit_code}) [cmd: {}]",
                        path.join("."),
                        mismatch_reported(&rc),
                        rc.status,
                        c.cmdline()
                    ),
                );
                return out;
            }
        }
    }
    // --- drift: every leaf of the stored file, one at a time (stored-state corruption)
    let mut paths = Vec::new();
    leaves(&doc, &mut Vec::new(), &mut paths);
    if !enumerate_leaves {
        // sampled: every 7th leaf
        paths = paths.into_iter().step_by(7).collect();
    }
    for (pi, path) in paths.into_iter().enumerate() {
        // every fourth leaf: a value that does not fit the field (where the leaf is a number or a system name)
        let out_of_range = if pi % 4 == 1 { perturb_out_of_range(&doc, &path, pi / 4) } else { None };
        if out_of_range.is_some() {
            ex.fault("stored_statistic_out_of_range");
        }
        let Some(d) = out_of_range.or_else(|| perturb(&doc, &path)) else { continue };
        let Some(text) = render(&d, &ext) else { continue };
        let mut c = bb.clone();
        c.input_stats = Some(text);
        if pi % 5 == 3 {
            // every fifth perturbed leaf: the reader of stdout is gone (EPIPE from a byte within the first lines
            // of the report on) - the drift must be reported on stderr and in the exit status all the same
            c.io.stdout_fail_at = Some((pi as u64 * 37) % 1500);
            c.io.stdout_errno = 32;
        }
        let rc = ex.exec(&c);
        ex.fault("stored_statistic_perturbed");
        if let Some(f) = check_orderly(&rc) {
            let mut f = f;
            f.message = format!("{} [perturbed leaf {}]", f.message, path.join("."));
            out.fail = Some(f);
            return out;
        }
        if !mismatch_reported(&rc) || rc.status != exit_code {
            // generic site: the field name without indices
            let field: Vec<&str> = path.iter().map(|s| s.as_str()).filter(|s| s.parse::<usize>().is_err()).collect();
            out.fail = fail(
                &format!("leaf-drift-not-reported:{}", field.join(".")),
                format!(
                    "statistic {} changed in the stored file: mismatch reported = {}, status {} (expected {exit_code}) [cmd: {}]",
                    path.join("."),
                    mismatch_reported(&rc),
                    rc.status,
                    c.cmdline()
                ),
            );
            return out;
        }
    }
    out
}
