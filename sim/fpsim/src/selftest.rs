//! Self-tests of the simulator (not property checks): determinism of executions, fidelity of the
//! stubbed driver against the real binary, shim channels against the real crates (the last one
//! lives in the `shimtest` crate).

use crate::exec::{ExecResult, ExecSpec, InputMode};
use crate::framework::{self, case_key, Executor, Fail, Scenario, Tier, TrialOutcome};
use crate::oracle;
use crate::scenarios;
use crate::trials::Trial;
use fpsim_rt::rng::{hash_bytes, mix, Rng};

fn digest(r: &ExecResult) -> u64 {
    let mut h = mix(&[
        r.status as u64,
        r.outcome.trace_hash,
        r.outcome.steps,
        r.outcome.switches,
        r.outcome.arrival_hash,
        hash_bytes(&r.stdout_normalised()),
        hash_bytes(scrub_workdir(&r.stderr).as_bytes()),
        hash_bytes(r.stats_file.as_deref().unwrap_or(b"-")),
        hash_bytes(r.out_file.as_deref().unwrap_or(b"-")),
    ]);
    for d in &r.outcome.decisions {
        h = mix(&[h, *d as u64]);
    }
    h
}

impl ExecResult {
    /// stdout without the wall-clock dependent `Processed in` line
    pub fn stdout_normalised(&self) -> Vec<u8> {
        oracle::normalise_stdout(&self.stdout).into_bytes()
    }
}

pub fn run_determinism(ex: &mut Executor, specs: &[ExecSpec], label: &str) -> TrialOutcome {
    let mut out = TrialOutcome { nontrivial: true, labels: vec![], ..Default::default() };
    let mut total = 0u64;
    for (i, s) in specs.iter().enumerate() {
        let a = ex.exec(s);
        let b = ex.exec(s);
        if i == 0 {
            out.key = case_key(&s.input, &a);
        }
        let (da, db) = (digest(&a), digest(&b));
        if da != db {
            let what = if a.status != b.status {
                "exit status"
            } else if a.outcome.trace_hash != b.outcome.trace_hash {
                "schedule trace"
            } else if a.stderr != b.stderr {
                "stderr"
            } else if a.stdout_normalised() != b.stdout_normalised() {
                "stdout"
            } else {
                "statistics / output file / decisions"
            };
            out.fail = Some(Fail::new(
                "nondeterminism",
                what,
                format!("two executions of the same spec differ in {what}: `{}` policy {} [{label}]", s.cmdline(), s.policy.name()),
            ));
            return out;
        }
        total = mix(&[total, da]);
    }
    // the digest becomes a label so that runs at different worker counts can be compared
    out.labels.push(format!("{label}={total:016x}"));
    out
}

pub fn run_fidelity(ex: &mut Executor, spec: &ExecSpec, label: &str) -> TrialOutcome {
    let mut out = TrialOutcome { nontrivial: true, labels: vec![label.to_string()], ..Default::default() };
    let bin = match std::env::var("FPSIM_REAL_BIN") {
        Ok(b) => b,
        Err(_) => {
            out.fail = Some(Fail::new("harness", "fidelity", "FPSIM_REAL_BIN not set"));
            return out;
        }
    };
    if spec.argv.iter().any(|a| a.contains("@INSTATS@")) {
        // needs a statistics file produced by another run: not a single-command comparison
        out.nontrivial = false;
        return out;
    }
    let mut canon = spec.clone();
    canon.policy = crate::exec::PolicySpec::Canonical;
    canon.cap_limit = None;
    canon.io = Default::default();
    // (the real process below starts in an empty directory)
    canon.stale_outputs = None;
    let r = ex.exec(&canon);
    out.key = case_key(&spec.input, &r);
    if oracle::has_fatal(&r.stderr) {
        // after a fatal input error the outcome depends on thread scheduling (known finding): the
        // real process is not comparable with one particular schedule
        out.nontrivial = false;
        return out;
    }
    // the real process, same command line
    let dir = ex.wd.dir.join("real");
    let _ = std::fs::remove_dir_all(&dir);
    std::fs::create_dir_all(&dir).expect("mkdir");
    let inp = dir.join("in.raw");
    let stats = dir.join(format!("stats.{}", spec.stats_ext));
    let outp = dir.join("out.raw");
    let checks = dir.join("checks.toml");
    std::fs::write(&inp, &spec.input).expect("write");
    if let Some(t) = &spec.custom_checks_toml {
        std::fs::write(&checks, t).expect("write");
    }
    let args: Vec<String> = spec
        .argv
        .iter()
        .map(|a| {
            a.replace("@IN@", &inp.to_string_lossy())
                .replace("@STATS@", &stats.to_string_lossy())
                .replace("@OUT@", &outp.to_string_lossy())
                .replace("@CHECKS@", &checks.to_string_lossy())
        })
        .collect();
    let mut cmd = std::process::Command::new(&bin);
    cmd.args(&args).stdout(std::process::Stdio::piped()).stderr(std::process::Stdio::piped());
    if spec.input_mode == InputMode::Pipe {
        cmd.stdin(std::fs::File::open(&inp).expect("open input"));
    } else {
        cmd.stdin(std::process::Stdio::null());
    }
    let o = match cmd.output() {
        Ok(o) => o,
        Err(e) => {
            out.fail = Some(Fail::new("harness", "fidelity", format!("cannot run {bin}: {e}")));
            return out;
        }
    };
    let real_status = o.status.code().unwrap_or(-1);
    let real_stats = std::fs::read(&stats).ok();
    let real_out = std::fs::read(&outp).ok();
    let subst = |b: &[u8]| -> String {
        // file names differ between the two runs
        String::from_utf8_lossy(b).replace(&*dir.to_string_lossy(), "<dir>").replace(&*ex.wd.dir.to_string_lossy(), "<dir>")
    };
    let cmp: [(&str, String, String); 3] = [
        ("stdout", oracle::normalise_stdout(&o.stdout), oracle::normalise_stdout(&r.stdout)),
        // (INFO / DEBUG / TRACE lines of different threads interleave as the OS schedules them: only what
        // ERROR and WARN say is compared)
        ("stderr", loud_lines(&subst(&o.stderr).replace("<dir>/real", "<dir>")), loud_lines(&subst(&r.stderr))),
        (
            "statistics file",
            subst(real_stats.as_deref().unwrap_or(b"<none>")),
            subst(r.stats_file.as_deref().unwrap_or(b"<none>")),
        ),
    ];
    if real_status != r.status {
        out.fail = Some(Fail::new(
            "infidelity",
            "exit-status",
            format!("real binary exits {real_status}, simulated driver {} for `{}`", r.status, spec.cmdline()),
        ));
        return out;
    }
    for (name, real, sim) in cmp {
        if real != sim {
            let i = real.lines().zip(sim.lines()).position(|(a, b)| a != b).unwrap_or(0);
            out.fail = Some(Fail::new(
                "infidelity",
                name,
                format!(
                    "{name} differs for `{}`: real `{}` vs simulated `{}`",
                    spec.cmdline(),
                    real.lines().nth(i).unwrap_or("<eof>"),
                    sim.lines().nth(i).unwrap_or("<eof>")
                ),
            ));
            return out;
        }
    }
    if real_out != r.out_file {
        out.fail = Some(Fail::new("infidelity", "output-file", format!("-o file differs for `{}`", spec.cmdline())));
    }
    out
}

/// Pseudo-scenario D00: determinism over the specs of real scenarios' trials.
pub struct DeterminismScenario;

const DET_SOURCES: [&str; 8] = ["C01", "C04", "C05", "C17", "C03", "C16", "C13", "C06"];

impl Scenario for DeterminismScenario {
    fn property(&self) -> &'static str {
        "D00"
    }
    fn n_cases(&self, tier: Tier) -> u64 {
        match tier {
            Tier::Quick => 480,
            Tier::Thorough => 8_000,
        }
    }
    fn rule(&self) -> String {
        "self-test: every execution spec of trials drawn from C01, C04, C05, C17, C03, C16, C13, C06 is executed twice; status, schedule trace, decision list, stdout, stderr, statistics and output files must be identical".into()
    }
    fn make(&self, seed: u64, case: u64, tier: Tier) -> Trial {
        let src = DET_SOURCES[(case % DET_SOURCES.len() as u64) as usize];
        let sc = scenarios::find(src).expect("scenario");
        let mut t = sc.make(seed, case, tier);
        let mut specs: Vec<ExecSpec> = t.specs_mut().into_iter().map(|s| s.clone()).collect();
        specs.truncate(4);
        Trial::Determinism { specs, label: format!("{src}#{case}") }
    }
}

/// Pseudo-scenario F00: fidelity of the stubbed driver against the real binary.
pub struct FidelityScenario;

impl Scenario for FidelityScenario {
    fn property(&self) -> &'static str {
        "F00"
    }
    fn n_cases(&self, tier: Tier) -> u64 {
        match tier {
            Tier::Quick => 300,
            Tier::Thorough => 5_000,
        }
    }
    fn rule(&self) -> String {
        "self-test: fault-free canonical-schedule executions of trials drawn from C01, C02, C16, C12, C08, C19 against the real binary built from the same sources: exit status, stdout (without `Processed in`), stderr, statistics file, -o file must be identical".into()
    }
    fn make(&self, seed: u64, case: u64, tier: Tier) -> Trial {
        // workloads whose outcome does not depend on scheduling (no fatal input errors, payload layout
        // in agreement with the header's data format)
        const SRC: [&str; 6] = ["C01", "C02", "C16", "C12", "C08", "C19"];
        let src = SRC[(case % SRC.len() as u64) as usize];
        let sc = scenarios::find(src).expect("scenario");
        let mut t = sc.make(seed, case, tier);
        let mut rng = Rng::new(seed);
        let specs: Vec<ExecSpec> = t.specs_mut().into_iter().map(|s| s.clone()).collect();
        let mut spec = specs[rng.usize_below(specs.len())].clone();
        if src == "C08" {
            // FilterWrite keeps the filter outside the base spec
            spec.argv.extend(["-f".to_string(), "3".to_string(), "-o".to_string(), "@OUT@".to_string()]);
        }
        Trial::Fidelity { spec, label: src.to_string() }
    }
}

fn labels_of(prop: &str) -> std::collections::BTreeMap<String, u64> {
    let p = framework::verif_dir().join("evidence").join(format!("{prop}.json"));
    let v: serde_json::Value = std::fs::read(&p).ok().and_then(|b| serde_json::from_slice(&b).ok()).unwrap_or_default();
    v.get("coverage")
        .and_then(|c| c.get("case_labels"))
        .and_then(|l| l.as_object())
        .map(|m| m.iter().map(|(k, v)| (k.clone(), v.as_u64().unwrap_or(0))).collect())
        .unwrap_or_default()
}

pub fn run(tier: Tier) -> i32 {
    let mut rc = 0;
    // 1. determinism, at 1, 4 and 16 worker processes: same digests everywhere
    let mut maps = Vec::new();
    for shards in ["1", "4", "16"] {
        std::env::set_var("FPSIM_SHARDS", shards);
        let code = framework::run_check(&DeterminismScenario, tier);
        if code != 0 {
            eprintln!("selftest: determinism check failed at {shards} workers (exit {code})");
            rc = 2;
        }
        maps.push(labels_of("D00"));
    }
    std::env::remove_var("FPSIM_SHARDS");
    if maps.windows(2).any(|w| w[0] != w[1]) || maps[0].is_empty() {
        let diff = maps[0].iter().filter(|(k, _)| !maps[1].contains_key(*k) || !maps[2].contains_key(*k)).count();
        eprintln!("selftest: execution digests differ between worker counts 1 / 4 / 16 ({diff} cases)");
        rc = 2;
    } else {
        println!("selftest: {} cases give identical digests twice in a row and at 1, 4 and 16 workers", maps[0].len());
    }
    let _ = std::fs::remove_file(framework::verif_dir().join("evidence").join("D00.json"));
    // 2. fidelity against the real binary, when one was built
    if std::env::var("FPSIM_REAL_BIN").is_ok() {
        let code = framework::run_check(&FidelityScenario, tier);
        if code != 0 {
            eprintln!("selftest: fidelity check failed (exit {code})");
            rc = 2;
        }
        let _ = std::fs::remove_file(framework::verif_dir().join("evidence").join("F00.json"));
    } else {
        println!("selftest: FPSIM_REAL_BIN not set, fidelity against the real binary skipped");
    }
    rc
}

/// stderr without the log lines (and their continuation lines) below WARN.
fn loud_lines(s: &str) -> String {
    let plain = oracle::strip_ansi(s);
    let mut keep = true;
    let mut out = String::new();
    for l in plain.lines() {
        if ["INFO ", "DEBUG ", "TRACE "].iter().any(|p| l.starts_with(p)) {
            keep = false;
        } else if ["ERROR ", "WARN "].iter().any(|p| l.starts_with(p)) {
            keep = true;
        }
        if keep {
            out.push_str(l);
            out.push('\n');
        }
    }
    out
}

/// stderr with the per-process scratch directory name (`.../fpsim-<pid>-<name>`, shown by -v 4 when the
/// configuration is logged) replaced by a fixed token.
fn scrub_workdir(stderr: &[u8]) -> String {
    let s = String::from_utf8_lossy(stderr);
    let mut out = String::with_capacity(s.len());
    let mut rest: &str = &s;
    while let Some(i) = rest.find("fpsim-") {
        out.push_str(&rest[..i]);
        let tail = &rest[i + 6..];
        let digits = tail.chars().take_while(|c| c.is_ascii_digit()).count();
        if digits > 0 && tail[digits..].starts_with('-') {
            let name = tail[digits + 1..].chars().take_while(|c| c.is_ascii_alphanumeric() || *c == '-' || *c == '_').count();
            out.push_str("fpsim-<wd>");
            rest = &tail[digits + 1 + name..];
        } else {
            out.push_str("fpsim-");
            rest = tail;
        }
    }
    out.push_str(rest);
    out
}
