//! Orchestration: seeded cases -> trials -> executions -> oracles; sharding over worker processes;
//! minimisation, replay files, known findings, evidence.

use crate::exec::{exec, EndKind, ExecResult, ExecSpec, PolicySpec, WorkDir};
use crate::trials::Trial;
use fpsim_rt::rng::{hash_bytes, mix};
use serde::{Deserialize, Serialize};
use serde_json::{json, Value};
use std::collections::{BTreeMap, BTreeSet};
use std::path::{Path, PathBuf};
use std::time::Instant;

#[derive(Clone, Copy, Debug, PartialEq, Eq)]
pub enum Tier {
    Quick,
    Thorough,
}

impl Tier {
    pub fn name(&self) -> &'static str {
        match self {
            Tier::Quick => "quick",
            Tier::Thorough => "thorough",
        }
    }
}

#[derive(Clone, Debug, Serialize, Deserialize, PartialEq)]
pub struct Fail {
    /// Violation class (panic, deadlock, hang, crash, order-dependence, missed-detection, ...).
    pub class: String,
    /// Stable location: source line of a panic, or the name of the failing relation.
    pub site: String,
    pub message: String,
}

impl Fail {
    pub fn new(class: &str, site: &str, message: impl Into<String>) -> Fail {
        Fail { class: class.into(), site: site.into(), message: message.into() }
    }
    pub fn from_disorder(r: &ExecResult) -> Option<Fail> {
        r.disorder().map(|(c, s, m)| Fail { class: c, site: s, message: m })
    }
}

#[derive(Clone, Debug, Default)]
pub struct TrialOutcome {
    pub fail: Option<Fail>,
    /// The case was non-trivial by the scenario's rule.
    pub nontrivial: bool,
    /// Distinctness key of the case.
    pub key: u64,
    /// Coverage labels (counted per scenario; e.g. fault kind, mode).
    pub labels: Vec<String>,
}

#[derive(Default, Serialize, Deserialize, Clone, Debug)]
pub struct Acc {
    pub execs: u64,
    pub steps: u64,
    pub switches: u64,
    pub input_bytes: u64,
    pub exec_wall_us: u64,
    pub faults_fired: BTreeMap<String, u64>,
    pub probes: BTreeMap<String, u64>,
    pub policies: BTreeMap<String, u64>,
    pub traces: BTreeSet<u64>,
    pub arrivals: BTreeSet<u64>,
    pub max_threads: usize,
    pub harness_errors: Vec<String>,
    pub unmanaged_ops: u64,
}

impl Acc {
    fn bump(map: &mut BTreeMap<String, u64>, k: &str, n: u64) {
        if n > 0 {
            *map.entry(k.to_string()).or_insert(0) += n;
        }
    }
    pub fn merge(&mut self, o: &Acc) {
        self.execs += o.execs;
        self.steps += o.steps;
        self.switches += o.switches;
        self.input_bytes += o.input_bytes;
        self.exec_wall_us += o.exec_wall_us;
        for (k, v) in &o.faults_fired {
            Self::bump(&mut self.faults_fired, k, *v);
        }
        for (k, v) in &o.probes {
            Self::bump(&mut self.probes, k, *v);
        }
        for (k, v) in &o.policies {
            Self::bump(&mut self.policies, k, *v);
        }
        self.traces.extend(o.traces.iter().copied());
        self.arrivals.extend(o.arrivals.iter().copied());
        self.max_threads = self.max_threads.max(o.max_threads);
        self.harness_errors.extend(o.harness_errors.iter().cloned());
        self.unmanaged_ops += o.unmanaged_ops;
    }
}

pub struct Executor<'a> {
    pub wd: &'a WorkDir,
    pub acc: Acc,
    /// Decisions recorded by the executions of the current trial, in execution order.
    pub decisions: Vec<Vec<u16>>,
}

impl<'a> Executor<'a> {
    pub fn new(wd: &'a WorkDir) -> Self {
        Executor { wd, acc: Acc::default(), decisions: Vec::new() }
    }

    pub fn exec(&mut self, spec: &ExecSpec) -> ExecResult {
        let r = exec(spec, self.wd);
        let a = &mut self.acc;
        a.execs += 1;
        a.steps += r.outcome.steps;
        a.switches += r.outcome.switches;
        a.input_bytes += r.io.input_bytes;
        a.exec_wall_us += r.wall_us;
        Acc::bump(&mut a.policies, &policy_family(&spec.policy), 1);
        if spec.stale_outputs.is_some() {
            Acc::bump(&mut a.faults_fired, "stale_output_files_present", 1);
        }
        Acc::bump(&mut a.faults_fired, "clock_jump", r.io.clock_jumps);
        Acc::bump(&mut a.probes, "seeded_entropy_reads", r.io.seeded_entropy_reads);
        Acc::bump(&mut a.faults_fired, "short_read", r.io.short_reads);
        Acc::bump(&mut a.faults_fired, "read_eintr", r.io.read_eintr);
        Acc::bump(&mut a.faults_fired, "read_eio", r.io.read_eio);
        Acc::bump(&mut a.faults_fired, "read_eof_injected", r.io.read_eof_injected);
        Acc::bump(&mut a.faults_fired, "stdout_short_write", r.io.stdout_short_writes);
        Acc::bump(&mut a.faults_fired, "stdout_eintr", r.io.stdout_eintr);
        Acc::bump(&mut a.faults_fired, "stdout_failed_write", r.io.stdout_failed_writes);
        if r.outcome.stop_injected_at.is_some() {
            Acc::bump(&mut a.faults_fired, "stop_event", 1);
        }
        if spec.cap_limit.is_some() {
            Acc::bump(&mut a.faults_fired, "queue_capacity_capped_runs", 1);
        }
        for (k, v) in &r.outcome.probes {
            Acc::bump(&mut a.probes, k, *v);
        }
        if r.outcome.threads >= 2 {
            a.traces.insert(r.outcome.trace_hash);
            a.arrivals.insert(r.outcome.arrival_hash);
        }
        a.max_threads = a.max_threads.max(r.outcome.threads);
        a.unmanaged_ops += r.outcome.unmanaged_ops;
        if let EndKind::Harness(m) = &r.end {
            a.harness_errors.push(m.clone());
        }
        self.decisions.push(r.outcome.decisions.clone());
        r
    }

    pub fn fault(&mut self, name: &str) {
        Acc::bump(&mut self.acc.faults_fired, name, 1);
    }
    pub fn probe(&mut self, name: &str) {
        Acc::bump(&mut self.acc.probes, name, 1);
    }
}

fn policy_family(p: &PolicySpec) -> String {
    match p {
        PolicySpec::Canonical => "canonical".into(),
        PolicySpec::Random { .. } => "random".into(),
        PolicySpec::Pct { .. } => "pct".into(),
        PolicySpec::Starve { .. } => "starve".into(),
        PolicySpec::Replay => "replay".into(),
    }
}

pub fn case_key(input: &[u8], r: &ExecResult) -> u64 {
    mix(&[hash_bytes(input), r.outcome.trace_hash])
}

pub trait Scenario: Sync {
    fn property(&self) -> &'static str;
    fn level(&self) -> &'static str {
        "exploration"
    }
    fn n_cases(&self, tier: Tier) -> u64;
    fn make(&self, seed: u64, case: u64, tier: Tier) -> Trial;
    fn rule(&self) -> String;
    fn assumptions(&self) -> Vec<String> {
        vec![]
    }
    /// Wall-clock cap for the whole check in seconds (safety net; the case count is the budget).
    fn time_cap_s(&self, tier: Tier) -> u64 {
        match tier {
            Tier::Quick => 150,
            Tier::Thorough => 1500,
        }
    }
}

#[derive(Serialize, Deserialize, Clone, Debug)]
pub struct ViolationRec {
    pub fail: Fail,
    pub replay: String,
    pub seed: u64,
    pub case: u64,
}

#[derive(Serialize, Deserialize, Default, Debug)]
pub struct ShardReport {
    pub evaluations: u64,
    pub nontrivial_evals: u64,
    pub keys: Vec<u64>,
    pub labels: BTreeMap<String, u64>,
    pub acc: Acc,
    pub violations: Vec<ViolationRec>,
    pub samples: Vec<Value>,
    pub wall_s: f64,
    pub cut_by_time: bool,
}

#[derive(Serialize, Deserialize, Clone, Debug)]
pub struct ReplayFile {
    pub property: String,
    pub violation: Fail,
    pub seed: u64,
    pub case: u64,
    pub minimised_from: Value,
    pub trial: Trial,
}

pub fn verif_dir() -> PathBuf {
    std::env::var("FPSIM_VERIF_DIR").map(PathBuf::from).unwrap_or_else(|_| PathBuf::from("/verif"))
}

pub fn base_seed() -> u64 {
    std::env::var("VERIF_SEED").ok().and_then(|s| s.trim().parse::<u64>().ok()).unwrap_or(1)
}

/// Second phase of a check run by another build of the simulator (AddressSanitizer): its evidence
/// and replay files carry the phase name, the first phase merges its summary (`FPSIM_MERGE_PHASE`).
pub fn phase() -> Option<String> {
    std::env::var("FPSIM_PHASE").ok().filter(|s| !s.is_empty())
}

fn n_cases_capped(sc: &dyn Scenario, tier: Tier) -> u64 {
    let n = sc.n_cases(tier);
    match std::env::var("FPSIM_MAX_CASES").ok().and_then(|s| s.parse::<u64>().ok()) {
        Some(m) => n.min(m.max(1)),
        None => n,
    }
}

fn prop_tag(p: &str) -> u64 {
    hash_bytes(p.as_bytes())
}

/// Run one shard: cases `shard, shard + n, ...`.
pub fn run_shard(sc: &dyn Scenario, tier: Tier, seed: u64, shard: u64, nshards: u64, out: &Path) {
    let t0 = Instant::now();
    let wd = WorkDir::new(&format!("{}-{}", sc.property(), shard));
    let mut ex = Executor::new(&wd);
    let mut rep = ShardReport::default();
    let mut keys: BTreeSet<u64> = BTreeSet::new();
    let n = n_cases_capped(sc, tier);
    let cap = std::env::var("FPSIM_TIME_CAP_S")
        .ok()
        .and_then(|s| s.parse::<u64>().ok())
        .unwrap_or_else(|| sc.time_cap_s(tier));
    let mut case = shard;
    while case < n {
        if t0.elapsed().as_secs() >= cap {
            rep.cut_by_time = true;
            break;
        }
        let cseed = mix(&[seed, prop_tag(sc.property()), case]);
        let trial = sc.make(cseed, case, tier);
        ex.decisions.clear();
        let out_t = trial.run(&mut ex);
        rep.evaluations += 1;
        for l in &out_t.labels {
            *rep.labels.entry(l.clone()).or_insert(0) += 1;
        }
        if out_t.nontrivial {
            rep.nontrivial_evals += 1;
            keys.insert(out_t.key);
        }
        if rep.samples.len() < 2 && (out_t.nontrivial || rep.evaluations > 50) {
            rep.samples.push(trial.summary());
        }
        if let Some(fail) = out_t.fail {
            if fail.class == "harness" {
                ex.acc.harness_errors.push(format!("case {case}: {}", fail.message));
            } else if rep.violations.len() < 4 {
                let decisions = ex.decisions.clone();
                let (min_trial, from) = crate::minimise::minimise(&trial, &fail, &decisions, &mut ex);
                let path = write_replay(sc.property(), &fail, seed, case, from, &min_trial);
                rep.violations.push(ViolationRec { fail, replay: path, seed, case });
            } else {
                rep.violations.push(ViolationRec { fail, replay: String::new(), seed, case });
                if rep.violations.len() > 50 {
                    break;
                }
            }
        }
        case += nshards;
    }
    rep.keys = keys.into_iter().collect();
    rep.acc = std::mem::take(&mut ex.acc);
    rep.wall_s = t0.elapsed().as_secs_f64();
    let bytes = serde_json::to_vec(&rep).expect("serialize shard report");
    std::fs::write(out, bytes).expect("write shard report");
}

fn write_replay(prop: &str, fail: &Fail, seed: u64, case: u64, from: Value, trial: &Trial) -> String {
    let dir = verif_dir().join("replays");
    let _ = std::fs::create_dir_all(&dir);
    let rf = ReplayFile {
        property: prop.to_string(),
        violation: fail.clone(),
        seed,
        case,
        minimised_from: from,
        trial: trial.clone(),
    };
    let h = hash_bytes(format!("{}{}{}", fail.class, fail.site, case).as_bytes()) & 0xFFFF_FFFF;
    let tag = phase().map(|p| format!("{p}-")).unwrap_or_default();
    let path = dir.join(format!("{prop}-{tag}{seed}-{case}-{h:08x}.json"));
    let _ = std::fs::write(&path, serde_json::to_vec_pretty(&rf).unwrap_or_default());
    path.to_string_lossy().into_owned()
}

#[derive(Deserialize, Debug, Clone)]
pub struct KnownFinding {
    pub property: String,
    pub status: String,
    pub class: String,
    pub site: String,
    #[serde(default)]
    pub message_prefix: Option<String>,
    #[serde(default)]
    pub what: String,
    #[serde(default)]
    pub commit: Option<String>,
}

pub fn load_known() -> Vec<KnownFinding> {
    let p = verif_dir().join("known_findings.json");
    match std::fs::read(&p) {
        Ok(b) => serde_json::from_slice(&b).unwrap_or_else(|e| {
            eprintln!("fpsim: cannot parse {}: {e}", p.display());
            std::process::exit(2);
        }),
        Err(_) => Vec::new(),
    }
}

fn matches_known<'a>(prop: &str, f: &Fail, known: &'a [KnownFinding]) -> Option<&'a KnownFinding> {
    known.iter().find(|k| {
        k.status == "known"
            && k.property == prop
            && k.class == f.class
            && k.site == f.site
            && k.message_prefix.as_ref().map_or(true, |p| f.message.contains(p.as_str()))
    })
}

/// Parent: run all shards of one property, merge, write evidence, print the verdict.
/// Returns the process exit code.
pub fn run_check(sc: &dyn Scenario, tier: Tier) -> i32 {
    let t0 = Instant::now();
    let seed = base_seed();
    let prop = sc.property();
    let nshards: u64 = std::env::var("FPSIM_SHARDS")
        .ok()
        .and_then(|s| s.parse().ok())
        .unwrap_or_else(|| std::thread::available_parallelism().map(|n| n.get() as u64).unwrap_or(8).min(16));
    let nshards = nshards.min(n_cases_capped(sc, tier).max(1));
    let exe = std::env::current_exe().expect("current_exe");
    let outdir = WorkDir::new(&format!("{prop}-parent"));
    let mut children = Vec::new();
    for i in 0..nshards {
        let out = outdir.dir.join(format!("shard{i}.json"));
        let child = std::process::Command::new(&exe)
            .arg("shard")
            .arg(prop)
            .arg(tier.name())
            .arg(seed.to_string())
            .arg(i.to_string())
            .arg(nshards.to_string())
            .arg(&out)
            .stdin(std::process::Stdio::null())
            .spawn();
        match child {
            Ok(c) => children.push((c, out)),
            Err(e) => {
                eprintln!("fpsim: cannot start shard {i}: {e}");
                return 2;
            }
        }
    }
    let mut total = ShardReport::default();
    let mut keys: BTreeSet<u64> = BTreeSet::new();
    let mut harness_fail = false;
    for (mut c, out) in children {
        let st = c.wait();
        let ok = st.map(|s| s.success()).unwrap_or(false);
        let rep: Option<ShardReport> =
            std::fs::read(&out).ok().and_then(|b| serde_json::from_slice(&b).ok());
        match rep {
            Some(r) if ok => {
                total.evaluations += r.evaluations;
                total.nontrivial_evals += r.nontrivial_evals;
                keys.extend(r.keys.iter().copied());
                for (k, v) in &r.labels {
                    *total.labels.entry(k.clone()).or_insert(0) += v;
                }
                total.acc.merge(&r.acc);
                total.violations.extend(r.violations.iter().cloned());
                if total.samples.len() < 3 {
                    total.samples.extend(r.samples.iter().cloned().take(1));
                }
                total.cut_by_time |= r.cut_by_time;
            }
            _ => {
                eprintln!("fpsim: shard failed or produced no report ({})", out.display());
                harness_fail = true;
            }
        }
    }
    let wall_s = t0.elapsed().as_secs_f64();
    // known findings
    let known = load_known();
    let mut printed_known: BTreeSet<String> = BTreeSet::new();
    let mut real: Vec<&ViolationRec> = Vec::new();
    for v in &total.violations {
        if let Some(k) = matches_known(prop, &v.fail, &known) {
            let line = format!("KNOWN-FINDING: property={prop} {} [{} at {}]", k.what, k.class, k.site);
            if printed_known.insert(line.clone()) {
                println!("{line}");
            }
        } else {
            real.push(v);
        }
    }
    let distinct = keys.len() as u64;
    let runs_per_hour = if wall_s > 0.0 { total.acc.execs as f64 / wall_s * 3600.0 } else { 0.0 };
    let merged_phase: Option<Value> = std::env::var("FPSIM_MERGE_PHASE")
        .ok()
        .and_then(|p| std::fs::read(p).ok())
        .and_then(|b| serde_json::from_slice::<Value>(&b).ok())
        .map(|v| {
            json!({
                "what": v["phase_description"],
                "evaluations": v["coverage"]["evaluations"],
                "executions": v["coverage"]["executions"],
                "distinct_nontrivial": v["coverage"]["distinct_nontrivial"],
                "fault_kinds_fired": v["coverage"]["fault_kinds_fired"],
                "violations": v["violations"],
                "wall_s": v["wall_s"],
            })
        });
    let mut evidence = json!({
        "property_id": prop,
        "tier": tier.name(),
        "seed": seed,
        "level": sc.level(),
        "coverage": {
            "evaluations": total.evaluations,
            "distinct_nontrivial": distinct,
            "rule": sc.rule(),
            "samples": total.samples,
            "executions": total.acc.execs,
            "nontrivial_evaluations": total.nontrivial_evals,
            "case_labels": total.labels,
            "fault_kinds_fired": total.acc.faults_fired,
            "probes": total.acc.probes,
            "policies": total.acc.policies,
            "distinct_interleavings_trace_hash": total.acc.traces.len(),
            "distinct_collector_arrival_orders": total.acc.arrivals.len(),
            "simulated_time": {
                "scheduler_steps": total.acc.steps,
                "thread_switches": total.acc.switches,
                "input_bytes_streamed": total.acc.input_bytes,
                "note": "fastPASTA has no timer or deadline; simulated time is scheduler steps and streamed bytes"
            },
            "runs_per_hour": runs_per_hour.round(),
            "seeds_per_hour": if wall_s > 0.0 { (total.evaluations as f64 / wall_s * 3600.0).round() } else { 0.0 },
            "max_threads_in_a_run": total.acc.max_threads,
            "shards": nshards,
            "cut_by_time_cap": total.cut_by_time,
            "known_findings_matched": printed_known.len(),
            "components": {
                "real": ["alice_protocol_reader (InputScanner, BufReader<File>, StdInReaderSeeker, reader thread)",
                         "fastpasta lib (clap parser, validate_args, init_processing, analysis/dispatcher, link validators, ITS FSM, ALPIDE checks, views, writer, controller/collector, report, statistics (de)serialisation, util::lib::exit)",
                         "std stdin/stdout/stderr buffering, stderrlog"],
                "stub": ["init::run body (transcribed as sim_main)", "ctrlc signal thread (replaced by an injected store to the stop flag)",
                         "crossbeam-channel / flume (API-compatible shims on the scheduler)", "read/write/readv/writev at the libc boundary (seam)"]
            },
            "exhaustive": false
        },
        "assumptions": sc.assumptions(),
        "wall_s": wall_s,
        "violations": real.len(),
    });
    if let Some(m) = merged_phase {
        evidence["coverage"]["sanitizer_phase"] = m;
    }
    if let Some(ph) = phase() {
        evidence["phase_description"] = json!(std::env::var("FPSIM_PHASE_DESCRIPTION").unwrap_or(ph));
    }
    let evdir = verif_dir().join("evidence");
    let _ = std::fs::create_dir_all(&evdir);
    let evpath = match phase() {
        Some(ph) => evdir.join(format!("{prop}.{ph}.json")),
        None => evdir.join(format!("{prop}.json")),
    };
    if let Err(e) = std::fs::write(&evpath, serde_json::to_vec_pretty(&evidence).unwrap()) {
        eprintln!("fpsim: cannot write evidence {}: {e}", evpath.display());
        return 2;
    }
    println!(
        "{prop} {}{}: {} cases, {} executions, {} distinct non-trivial, {} traces, {} violations, {:.1}s",
        tier.name(),
        phase().map(|p| format!(" [{p} phase]")).unwrap_or_default(),
        total.evaluations,
        total.acc.execs,
        distinct,
        total.acc.traces.len(),
        real.len(),
        wall_s
    );
    if harness_fail || !total.acc.harness_errors.is_empty() || total.acc.unmanaged_ops > 0 {
        for e in total.acc.harness_errors.iter().take(5) {
            eprintln!("fpsim: harness error: {e}");
        }
        if total.acc.unmanaged_ops > 0 {
            eprintln!(
                "fpsim: {} channel operations came from threads the scheduler does not manage \
                 (a bare std::thread::spawn in the code under test?) - results are not trustworthy",
                total.acc.unmanaged_ops
            );
        }
        if real.is_empty() {
            return 2;
        }
    }
    if real.is_empty() {
        return 0;
    }
    {
        let mut sigs: BTreeMap<String, (u64, String)> = BTreeMap::new();
        for v in &real {
            let e = sigs
                .entry(format!("{} @ {}", v.fail.class, v.fail.site))
                .or_insert((0, first_line(&v.fail.message)));
            e.0 += 1;
        }
        for (k, (n, m)) in &sigs {
            println!("  signature {k}: {n} cases, e.g. {m}");
        }
    }
    let mut seen: BTreeSet<String> = BTreeSet::new();
    for v in &real {
        let sig = format!("{}|{}", v.fail.class, v.fail.site);
        if !v.replay.is_empty() && seen.insert(sig) {
            println!("VIOLATION property={prop} replay={}", v.replay);
            println!("  class={} site={} : {}", v.fail.class, v.fail.site, first_line(&v.fail.message));
        }
    }
    if seen.is_empty() {
        // all beyond the per-shard replay limit: still a violation
        println!("VIOLATION property={prop} replay=<none written>");
    }
    1
}

fn first_line(s: &str) -> String {
    let l = s.lines().next().unwrap_or("");
    if l.len() > 300 {
        let mut e = 300;
        while !l.is_char_boundary(e) {
            e -= 1;
        }
        format!("{}...", &l[..e])
    } else {
        l.to_string()
    }
}

/// Re-execute a replay file in this (fresh) process. Exit 1 + VIOLATION line when reproduced.
pub fn replay(path: &Path) -> i32 {
    let bytes = match std::fs::read(path) {
        Ok(b) => b,
        Err(e) => {
            eprintln!("fpsim: cannot read {}: {e}", path.display());
            return 2;
        }
    };
    let rf: ReplayFile = match serde_json::from_slice(&bytes) {
        Ok(r) => r,
        Err(e) => {
            eprintln!("fpsim: cannot parse {}: {e}", path.display());
            return 2;
        }
    };
    let wd = WorkDir::new("replay");
    let mut ex = Executor::new(&wd);
    let out = rf.trial.run(&mut ex);
    match out.fail {
        Some(f) if f.class == rf.violation.class && f.site == rf.violation.site => {
            println!("VIOLATION property={} replay={}", rf.property, path.display());
            println!("  reproduced: class={} site={} : {}", f.class, f.site, first_line(&f.message));
            1
        }
        Some(f) => {
            println!(
                "replay produced a different violation: class={} site={} (recorded: {} at {}): {}",
                f.class, f.site, rf.violation.class, rf.violation.site, first_line(&f.message)
            );
            1
        }
        None => {
            println!("replay of {} did not reproduce the violation", path.display());
            0
        }
    }
}
