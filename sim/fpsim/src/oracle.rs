//! Helpers shared by the oracles: parsing of captured stderr / stdout / statistics files.

use serde_json::Value;

pub fn strip_ansi(s: &str) -> String {
    let mut out = String::with_capacity(s.len());
    let b = s.as_bytes();
    let mut i = 0;
    while i < b.len() {
        if b[i] == 0x1B && i + 1 < b.len() && b[i + 1] == b'[' {
            i += 2;
            while i < b.len() && !(0x40..=0x7E).contains(&b[i]) {
                i += 1;
            }
            i += 1;
        } else {
            // copy one UTF-8 scalar
            let ch_len = utf8_len(b[i]);
            let end = (i + ch_len).min(b.len());
            out.push_str(&String::from_utf8_lossy(&b[i..end]));
            i = end;
        }
    }
    out
}

fn utf8_len(b: u8) -> usize {
    if b < 0x80 {
        1
    } else if b >> 5 == 0b110 {
        2
    } else if b >> 4 == 0b1110 {
        3
    } else if b >> 3 == 0b11110 {
        4
    } else {
        1
    }
}

#[derive(Clone, Debug, PartialEq)]
pub struct LogMsg {
    pub level: String,
    /// Full message text (ANSI stripped), continuation lines joined with '\n'.
    pub text: String,
}

/// Split captured stderr into log messages (a message starts at a line beginning with a level).
pub fn log_messages(stderr: &[u8]) -> Vec<LogMsg> {
    let s = strip_ansi(&String::from_utf8_lossy(stderr));
    let mut v: Vec<LogMsg> = Vec::new();
    for line in s.split('\n') {
        let mut started = false;
        for lvl in ["ERROR", "WARN", "INFO", "DEBUG", "TRACE"] {
            if let Some(rest) = line.strip_prefix(lvl) {
                if let Some(rest) = rest.strip_prefix(' ') {
                    v.push(LogMsg { level: lvl.to_string(), text: rest.to_string() });
                    started = true;
                    break;
                }
            }
        }
        if !started {
            if let Some(last) = v.last_mut() {
                last.text.push('\n');
                last.text.push_str(line);
            } else if !line.is_empty() {
                v.push(LogMsg { level: "RAW".into(), text: line.to_string() });
            }
        }
    }
    for m in v.iter_mut() {
        while m.text.ends_with('\n') {
            m.text.pop();
        }
    }
    v
}

#[derive(Clone, Debug, PartialEq)]
pub struct ErrMsg {
    /// Leading `0x<offset>:` of the message, if it has one.
    pub offset: Option<u64>,
    /// Every `[Ennn]` code in the message, in order.
    pub codes: Vec<String>,
    pub text: String,
}

pub fn parse_err_text(text: &str) -> ErrMsg {
    let offset = text
        .strip_prefix("0x")
        .or_else(|| text.strip_prefix("0X"))
        .and_then(|r| {
            let hex: String = r.chars().take_while(|c| c.is_ascii_hexdigit()).collect();
            if hex.is_empty() {
                None
            } else {
                u64::from_str_radix(&hex, 16).ok()
            }
        });
    let mut codes = Vec::new();
    let b = text.as_bytes();
    let mut i = 0;
    while i + 2 < b.len() {
        if b[i] == b'[' && b[i + 1] == b'E' {
            let mut j = i + 2;
            while j < b.len() && b[j].is_ascii_digit() {
                j += 1;
            }
            if j > i + 2 && j < b.len() && b[j] == b']' {
                codes.push(format!("E{}", &text[i + 2..j]));
                i = j;
            }
        }
        i += 1;
    }
    ErrMsg { offset, codes, text: text.to_string() }
}

/// The `ERROR` messages of captured stderr that are data errors (not FATAL / init messages).
pub fn error_msgs(stderr: &[u8]) -> Vec<ErrMsg> {
    log_messages(stderr)
        .into_iter()
        .filter(|m| m.level == "ERROR")
        .map(|m| parse_err_text(&m.text))
        .collect()
}

pub fn has_fatal(stderr: &[u8]) -> bool {
    log_messages(stderr).iter().any(|m| m.level == "ERROR" && m.text.starts_with("FATAL"))
}

/// Parse a statistics file (JSON or TOML by extension) into a JSON value.
pub fn parse_stats(bytes: &[u8], ext: &str) -> Option<Value> {
    let s = std::str::from_utf8(bytes).ok()?;
    if ext == "toml" {
        let t: toml::Value = toml::from_str(s).ok()?;
        serde_json::to_value(t).ok()
    } else {
        serde_json::from_str(s).ok()
    }
}

pub fn stats_u64(v: &Value, path: &[&str]) -> Option<u64> {
    let mut cur = v;
    for p in path {
        cur = cur.get(p)?;
    }
    cur.as_u64()
}

pub fn stats_get<'a>(v: &'a Value, path: &[&str]) -> Option<&'a Value> {
    let mut cur = v;
    for p in path {
        cur = cur.get(p)?;
    }
    Some(cur)
}

pub fn reported_errors(v: &Value) -> Vec<String> {
    stats_get(v, &["error_stats", "reported_errors"])
        .and_then(|a| a.as_array())
        .map(|a| a.iter().filter_map(|x| x.as_str().map(|s| strip_ansi(s))).collect())
        .unwrap_or_default()
}

/// Remove the run-time dependent line of the report.
pub fn normalise_stdout(stdout: &[u8]) -> String {
    let s = String::from_utf8_lossy(stdout);
    s.split('\n').filter(|l| !l.contains("Processed in")).collect::<Vec<_>>().join("\n")
}

/// `Total Errors` value of the report table, if the report was printed.
pub fn report_total_errors(stdout: &[u8]) -> Option<u64> {
    let s = strip_ansi(&String::from_utf8_lossy(stdout));
    for line in s.split('\n') {
        if let Some(pos) = line.find("Total Errors") {
            let rest = &line[pos + "Total Errors".len()..];
            let tok: String = rest
                .chars()
                .skip_while(|c| !c.is_ascii_digit())
                .take_while(|c| c.is_ascii_digit())
                .collect();
            return tok.parse().ok();
        }
    }
    None
}
