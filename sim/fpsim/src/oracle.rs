//! Helpers shared by the oracles: parsing of captured stderr / stdout / statistics files.

use serde_json::Value;

pub fn strip_ansi(s: &str) -> String {
    let mut out = String::with_capacity(s.len());
    let b = s.as_bytes();
    let mut i = 0;
    while i < b.len() {
        if b[i] == 0x1B && i + 1 < b.len() && b[i + 1] == b'[' {
            i += 2;
            while i < b.len() && !(0x40..=0x7E).contains(&b[i]) {
                i += 1;
            }
            i += 1;
        } else {
            // copy one UTF-8 scalar
            let ch_len = utf8_len(b[i]);
            let end = (i + ch_len).min(b.len());
            out.push_str(&String::from_utf8_lossy(&b[i..end]));
            i = end;
        }
    }
    out
}

fn utf8_len(b: u8) -> usize {
    if b < 0x80 {
        1
    } else if b >> 5 == 0b110 {
        2
    } else if b >> 4 == 0b1110 {
        3
    } else if b >> 3 == 0b11110 {
        4
    } else {
        1
    }
}

#[derive(Clone, Debug, PartialEq)]
pub struct LogMsg {
    pub level: String,
    /// Full message text (ANSI stripped), continuation lines joined with '\n'.
    pub text: String,
}

/// Split captured stderr into log messages (a message starts at a line beginning with a level).
pub fn log_messages(stderr: &[u8]) -> Vec<LogMsg> {
    let s = strip_ansi(&String::from_utf8_lossy(stderr));
    let mut v: Vec<LogMsg> = Vec::new();
    for line in s.split('\n') {
        let mut started = false;
        for lvl in ["ERROR", "WARN", "INFO", "DEBUG", "TRACE"] {
            if let Some(rest) = line.strip_prefix(lvl) {
                if let Some(rest) = rest.strip_prefix(' ') {
                    v.push(LogMsg { level: lvl.to_string(), text: rest.to_string() });
                    started = true;
                    break;
                }
            }
        }
        if !started {
            if let Some(last) = v.last_mut() {
                last.text.push('\n');
                last.text.push_str(line);
            } else if !line.is_empty() {
                v.push(LogMsg { level: "RAW".into(), text: line.to_string() });
            }
        }
    }
    for m in v.iter_mut() {
        while m.text.ends_with('\n') {
            m.text.pop();
        }
    }
    v
}

#[derive(Clone, Debug, PartialEq)]
pub struct ErrMsg {
    /// Leading `0x<offset>:` of the message, if it has one.
    pub offset: Option<u64>,
    /// Every `[Ennn]` code in the message, in order.
    pub codes: Vec<String>,
    pub text: String,
}

pub fn parse_err_text(text: &str) -> ErrMsg {
    let offset = text
        .strip_prefix("0x")
        .or_else(|| text.strip_prefix("0X"))
        .and_then(|r| {
            let hex: String = r.chars().take_while(|c| c.is_ascii_hexdigit()).collect();
            if hex.is_empty() {
                None
            } else {
                u64::from_str_radix(&hex, 16).ok()
            }
        });
    let mut codes = Vec::new();
    let b = text.as_bytes();
    let mut i = 0;
    while i + 2 < b.len() {
        if b[i] == b'[' && b[i + 1] == b'E' {
            let mut j = i + 2;
            while j < b.len() && b[j].is_ascii_digit() {
                j += 1;
            }
            if j > i + 2 && j < b.len() && b[j] == b']' {
                codes.push(format!("E{}", &text[i + 2..j]));
                i = j;
            }
        }
        i += 1;
    }
    ErrMsg { offset, codes, text: text.to_string() }
}

/// The `ERROR` messages of captured stderr that are data errors (not FATAL / init messages).
pub fn error_msgs(stderr: &[u8]) -> Vec<ErrMsg> {
    log_messages(stderr)
        .into_iter()
        .filter(|m| m.level == "ERROR")
        .map(|m| parse_err_text(&m.text))
        .collect()
}

pub fn has_fatal(stderr: &[u8]) -> bool {
    log_messages(stderr).iter().any(|m| m.level == "ERROR" && m.text.starts_with("FATAL"))
}

/// Parse a statistics file (JSON or TOML by extension) into a JSON value.
pub fn parse_stats(bytes: &[u8], ext: &str) -> Option<Value> {
    let s = std::str::from_utf8(bytes).ok()?;
    if ext == "toml" {
        let t: toml::Value = toml::from_str(s).ok()?;
        serde_json::to_value(t).ok()
    } else {
        serde_json::from_str(s).ok()
    }
}

pub fn stats_u64(v: &Value, path: &[&str]) -> Option<u64> {
    let mut cur = v;
    for p in path {
        cur = cur.get(p)?;
    }
    cur.as_u64()
}

pub fn stats_get<'a>(v: &'a Value, path: &[&str]) -> Option<&'a Value> {
    let mut cur = v;
    for p in path {
        cur = cur.get(p)?;
    }
    Some(cur)
}

pub fn reported_errors(v: &Value) -> Vec<String> {
    stats_get(v, &["error_stats", "reported_errors"])
        .and_then(|a| a.as_array())
        .map(|a| a.iter().filter_map(|x| x.as_str().map(|s| strip_ansi(s))).collect())
        .unwrap_or_default()
}

/// Remove the run-time dependent line of the report.
pub fn normalise_stdout(stdout: &[u8]) -> String {
    let s = String::from_utf8_lossy(stdout);
    s.split('\n').filter(|l| !l.contains("Processed in")).collect::<Vec<_>>().join("\n")
}

/// `Total Errors` value of the report table, if the report was printed.
pub fn report_total_errors(stdout: &[u8]) -> Option<u64> {
    let s = strip_ansi(&String::from_utf8_lossy(stdout));
    for line in s.split('\n') {
        if let Some(pos) = line.find("Total Errors") {
            let rest = &line[pos + "Total Errors".len()..];
            let tok: String = rest
                .chars()
                .skip_while(|c| !c.is_ascii_digit())
                .take_while(|c| c.is_ascii_digit())
                .collect();
            return tok.parse().ok();
        }
    }
    None
}

#[derive(Clone, Debug, PartialEq)]
pub struct RdhRow {
    pub off: u64,
    pub version: u64,
    pub header_size: u64,
    pub fee_id: u64,
    pub system_id: u64,
    pub offset_next: u64,
    pub link_id: u64,
    pub packet_counter: u64,
    pub bc: u64,
    pub orbit: u64,
    pub data_format: u64,
    pub trigger_type: u64,
    pub pages_counter: u64,
    pub stop_bit: u64,
    pub detector_field: u64,
}

fn num(s: &str) -> Option<u64> {
    let s = s.trim();
    if let Some(h) = s.strip_prefix("0x") {
        u64::from_str_radix(h, 16).ok()
    } else {
        s.parse().ok()
    }
}

/// Parse one unstyled `view rdh` row (fixed columns; header lines give None).
pub fn parse_rdh_row(line: &str) -> Option<RdhRow> {
    let (pos, rest) = line.split_once(':')?;
    let off = u64::from_str_radix(pos.trim(), 16).ok()?;
    let rest = rest.strip_prefix("  ")?;
    const W: [usize; 13] = [6, 7, 7, 6, 8, 6, 10, 5, 12, 11, 10, 9, 5];
    let chars: Vec<char> = rest.chars().collect();
    let mut i = 0;
    let mut f: Vec<u64> = Vec::new();
    for w in W {
        if i + w > chars.len() {
            return None;
        }
        let s: String = chars[i..i + w].iter().collect();
        f.push(num(&s)?);
        i += w;
    }
    let tail: String = chars[i..].iter().collect();
    let det = num(tail.trim())?;
    Some(RdhRow {
        off,
        version: f[0],
        header_size: f[1],
        fee_id: f[2],
        system_id: f[3],
        offset_next: f[4],
        link_id: f[5],
        packet_counter: f[6],
        bc: f[7],
        orbit: f[8],
        data_format: f[9],
        trigger_type: f[10],
        pages_counter: f[11],
        stop_bit: f[12],
        detector_field: det,
    })
}

pub fn rdh_rows(stdout: &[u8]) -> Vec<RdhRow> {
    strip_ansi(&String::from_utf8_lossy(stdout)).lines().filter_map(parse_rdh_row).collect()
}

#[derive(Clone, Debug, PartialEq)]
pub enum FrameRow {
    /// `RDH v<ver> stop=<s> stave: ... #<link> ... <orbit>_<bc>`
    Rdh { off: u64, text: String },
    /// A word row: type tag as printed (TDH, TDT, IHW, DDW, CDW, DATA), bytes, rest of the line.
    Word { off: u64, tag: String, bytes: [u8; 10], rest: String },
}

fn parse_bytes(s: &str) -> Option<([u8; 10], &str)> {
    let s = s.trim_start();
    let s = s.strip_prefix('[')?;
    let (inner, rest) = s.split_once(']')?;
    let mut b = [0u8; 10];
    let mut n = 0;
    for tok in inner.split_whitespace() {
        if n >= 10 {
            return None;
        }
        b[n] = u8::from_str_radix(tok, 16).ok()?;
        n += 1;
    }
    if n != 10 {
        return None;
    }
    Some((b, rest))
}

/// Parse the rows of an ITS readout-frame view (styled or not; ANSI is stripped first).
pub fn frame_rows(stdout: &[u8]) -> Vec<FrameRow> {
    let mut v = Vec::new();
    for line in strip_ansi(&String::from_utf8_lossy(stdout)).lines() {
        let Some((pos, rest)) = line.split_once(':') else { continue };
        let Ok(off) = u64::from_str_radix(pos.trim(), 16) else { continue };
        let rest = rest.strip_prefix(' ').unwrap_or(rest);
        if rest.starts_with("RDH v") {
            v.push(FrameRow::Rdh { off, text: rest.trim_end().to_string() });
            continue;
        }
        for tag in ["TDH", "TDT", "IHW", "DDW", "CDW", "DATA"] {
            if let Some(r) = rest.strip_prefix(tag) {
                if let Some((bytes, tail)) = parse_bytes(r) {
                    v.push(FrameRow::Word { off, tag: tag.to_string(), bytes, rest: tail.trim_end().to_string() });
                }
                break;
            }
        }
    }
    v
}

/// `<offset> Unknown ITS Payload Word ID: 0x.. found in: [..]` error lines of the views.
pub fn view_unknown_id_errors(stderr: &[u8]) -> Vec<(u64, [u8; 10])> {
    let mut v = Vec::new();
    for m in log_messages(stderr) {
        if m.level != "ERROR" {
            continue;
        }
        if let Some(i) = m.text.find("Unknown ITS Payload Word ID") {
            let head = m.text[..i].trim().trim_end_matches(':');
            if let Ok(off) = u64::from_str_radix(head.trim(), 16) {
                if let Some(j) = m.text.find("found in:") {
                    if let Some((b, _)) = parse_bytes(&m.text[j + 9..]) {
                        v.push((off, b));
                    }
                }
            }
        }
    }
    v
}

/// Integer value of a row of the report table (`Total RDHs`, `Total HBFs`, ...).
pub fn report_value(stdout: &[u8], name: &str) -> Option<u64> {
    let s = strip_ansi(&String::from_utf8_lossy(stdout));
    for line in s.split('\n') {
        if let Some(pos) = line.find(name) {
            let rest = &line[pos + name.len()..];
            let tok: String = rest
                .chars()
                .skip_while(|c| !c.is_ascii_digit())
                .take_while(|c| c.is_ascii_digit())
                .collect();
            return tok.parse().ok();
        }
    }
    None
}

/// The `FEE IDs seen` cell of the report table: the IDs listed (over several lines) and the count behind
/// `... K more`, if the list was cut (None: no such row).
pub fn report_fee_ids(stdout: &[u8]) -> Option<(Vec<u64>, u64)> {
    let s = strip_ansi(&String::from_utf8_lossy(stdout));
    let lines: Vec<&str> = s.split('\n').collect();
    let start = lines.iter().position(|l| l.contains("FEE IDs seen"))?;
    let mut cell = String::new();
    for (i, l) in lines.iter().enumerate().skip(start) {
        let inner = l.trim_start_matches(|c: char| c == '│' || c == '|');
        if i > start {
            // a continuation line of the cell has an empty label column
            let label: String = inner.chars().take(18).collect();
            if !label.trim().is_empty() {
                break;
            }
        }
        let body = if i == start { inner.splitn(2, "FEE IDs seen").nth(1).unwrap_or("") } else { inner };
        cell.push(' ');
        cell.push_str(body.trim_end_matches(|c: char| c == '│' || c == '|' || c.is_whitespace()));
    }
    let toks: Vec<&str> = cell.split_whitespace().collect();
    let mut ids = Vec::new();
    let mut more = 0u64;
    let mut i = 0;
    while i < toks.len() {
        if toks[i] == "..." {
            more = toks.get(i + 1).and_then(|t| t.parse().ok())?;
            break;
        }
        match toks[i].parse::<u64>() {
            Ok(v) => ids.push(v),
            Err(_) => break,
        }
        i += 1;
    }
    Some((ids, more))
}
