//! The repository's own sample files (tests/test-data/*.raw) as an additional workload source: data
//! shapes that come from real detectors and from the maintainers' hand-made error cases, i.e. shapes the
//! generator's model of the upstream system may not produce. They are read from the tree under test at
//! run time (FPSIM_REPO, default /repo); a replay file embeds the bytes it used.

use fpsim_rt::rng::Rng;
use itsgen::walker::{walk, WalkEnd};
use std::sync::OnceLock;

static CORPUS: OnceLock<Vec<(String, Vec<u8>)>> = OnceLock::new();

pub fn corpus() -> &'static Vec<(String, Vec<u8>)> {
    CORPUS.get_or_init(|| {
        let repo = std::env::var("FPSIM_REPO").unwrap_or_else(|_| "/repo".into());
        let dir = std::path::Path::new(&repo).join("tests/test-data");
        let mut v = Vec::new();
        if let Ok(rd) = std::fs::read_dir(&dir) {
            let mut names: Vec<_> = rd
                .filter_map(|e| e.ok())
                .map(|e| e.path())
                .filter(|p| p.extension().map_or(false, |x| x == "raw"))
                .collect();
            names.sort();
            for p in names {
                if let Ok(b) = std::fs::read(&p) {
                    if !b.is_empty() && b.len() <= 400_000 {
                        v.push((p.file_name().unwrap().to_string_lossy().into_owned(), b));
                    }
                }
            }
        }
        v
    })
}

pub fn well_framed(b: &[u8]) -> bool {
    let w = walk(b);
    w.end == WalkEnd::Clean && w.pkts.iter().all(|p| p.complete && p.rdh.memory_size == p.rdh.offset_next)
}

/// One sample file, or (1 in 4) two of them one after the other. `max_len` bounds the size.
pub fn pick(rng: &mut Rng, max_len: usize, need_well_framed: bool) -> Option<(String, Vec<u8>)> {
    let c: Vec<&(String, Vec<u8>)> =
        corpus().iter().filter(|(_, b)| b.len() <= max_len && (!need_well_framed || well_framed(b))).collect();
    if c.is_empty() {
        return None;
    }
    let a = c[rng.usize_below(c.len())];
    if rng.chance(1, 4) {
        let b = c[rng.usize_below(c.len())];
        if a.1.len() + b.1.len() <= max_len {
            let mut bytes = a.1.clone();
            bytes.extend_from_slice(&b.1);
            return Some((format!("{}+{}", a.0, b.0), bytes));
        }
    }
    Some((a.0.clone(), a.1.clone()))
}

/// Flip `k` bits inside 80-bit word slots of the payloads (never in headers, in the six filler bytes of
/// data format 0 or in the trailing 0xFF padding of data format 2): framing and layout stay intact.
pub fn flip_word_bits(b: &mut [u8], rng: &mut Rng, k: u64) {
    let w = walk(b);
    let mut slots: Vec<usize> = Vec::new();
    for p in &w.pkts {
        let step = if p.rdh.data_format == 0 { 16 } else { 10 };
        let len = p.payload.end - p.payload.start;
        let n = len / step;
        for i in 0..n {
            let off = p.payload.start + i * step;
            if p.rdh.data_format != 0 && b[off..off + 10].iter().all(|&x| x == 0xFF) {
                continue;
            }
            slots.push(off);
        }
    }
    if slots.is_empty() {
        return;
    }
    for _ in 0..k {
        let off = slots[rng.usize_below(slots.len())] + rng.usize_below(10);
        b[off] ^= 1 << rng.below(8);
    }
}
