//! Scenario registry: one scenario per claimed property.

use crate::exec::{ExecSpec, InputMode};
use crate::framework::{Scenario, Tier};
use crate::specgen::{self, benign_io, pick_input_mode, swarm_schedule, CHECK_MODES, VIEW_MODES};
use crate::trials::{IsoRole, StopKind, Trial};
use fpsim_rt::rng::Rng;
use itsgen::corrupt;
use itsgen::gen::{gen_arbitrary, gen_conforming, gen_framed_words, GenCfg, Stream};
use itsgen::walker::walk;
use itsgen::walker::Filter;

pub fn registry() -> Vec<Box<dyn Scenario>> {
    vec![
        Box::new(Conform),
        Box::new(Chaos),
        Box::new(Sched),
        Box::new(EarlyStop),
        Box::new(Truncate),
        Box::new(Scan),
        Box::new(FilterWrite),
        Box::new(StatsTruth),
        Box::new(ExitContract),
        Box::new(Truthful),
        Box::new(Views),
        Box::new(PayloadCut),
        Box::new(RdhWalk),
        Box::new(FsmWalk),
        Box::new(Faults),
        Box::new(Isolate),
        Box::new(Alpide),
        Box::new(StatsRt),
        Box::new(Custom),
    ]
}

pub fn find(prop: &str) -> Option<Box<dyn Scenario>> {
    match prop {
        "D00" => return Some(Box::new(crate::selftest::DeterminismScenario)),
        "F00" => return Some(Box::new(crate::selftest::FidelityScenario)),
        _ => {}
    }
    registry().into_iter().find(|s| s.property() == prop)
}

fn s(parts: &[&str]) -> Vec<String> {
    parts.iter().map(|x| x.to_string()).collect()
}

/// A filter that selects something present in the stream (or, rarely, nothing).
pub fn pick_filter(st: &Stream, rng: &mut Rng) -> Filter {
    if st.links.is_empty() {
        return Filter::None;
    }
    let l = &st.links[rng.usize_below(st.links.len())];
    match rng.below(8) {
        0 => Filter::Link(l.link_id),
        1 => Filter::Fee(l.fee_id),
        2 => Filter::Stave(l.fee_id),
        3 => Filter::Link(rng.below(256) as u8),
        _ => Filter::None,
    }
}

// ------------------------------------------------------------------------------------------------
// C01
// ------------------------------------------------------------------------------------------------
pub struct Conform;

impl Scenario for Conform {
    fn property(&self) -> &'static str {
        "C01"
    }
    fn n_cases(&self, tier: Tier) -> u64 {
        match tier {
            Tier::Quick => 6_000,
            Tier::Thorough => 400_000,
        }
    }
    fn rule(&self) -> String {
        "case = conforming multi-link stream from the upstream model (swarm: 1-12 links, merge order, \
         barrels, formats 0/2, RDH v6/v7, pages, continuation, no-data TDHs, internal/physics triggers, \
         CDWs, padding, status bits, ALPIDE content in stave mode; some cases force 99/100/101/200 packets, 1 in 25 \
         has 13-24 links, 1 in 15 of the check all / check all its cases two FEE IDs on one link number stored one after the other, 1 in 20 pages filled to exactly 507/508/509 words, a full 8 KiB page and the 10 000-byte limit) \
         x one of the five check modes x {plain,-m,-E n,-S} x {file,pipe} x seeded schedule policy x \
         queue-capacity cap x benign I/O faults. Non-trivial: >= 4 managed threads ran (reader, analysis, \
         >= 1 validator, collector). Distinct: (input hash, schedule trace hash)."
            .into()
    }
    fn assumptions(&self) -> Vec<String> {
        vec![
            "the generator's notion of 'conforming' is DESIGN.md appendix A (doc/checks_list.md + behaviour pinned by the repository's tests)".into(),
            "threads are switched only at channel operations, spawn, join and thread exit".into(),
        ]
    }
    fn make(&self, seed: u64, case: u64, _tier: Tier) -> Trial {
        let mut rng = Rng::new(seed);
        // one link with more than 2^16 RDHs (counters of packets per link wider than 16 bits): one case of the quick
        // tier, 1 in 50 000 otherwise
        let long_link = match _tier {
            Tier::Quick => case == 4242,
            Tier::Thorough => case % 50_000 == 4242,
        };
        if long_link {
            let mut cfg = GenCfg::swarm(&mut rng, false);
            cfg.n_links = 1;
            cfg.hbfs = (22_000, 22_400);
            cfg.data_pages = (2, 2);
            cfg.triggers = (1, 1);
            cfg.data_words = (0, 1);
            cfg.p_split = 0;
            cfg.p_cdw = 0;
            let st = gen_conforming(&cfg, &mut rng);
            let m = *rng.pick(&[2usize, 3]);
            let mut spec = specgen::spec(pick_input_mode(&mut rng), &s(CHECK_MODES[m]), st.bytes());
            let packets = st.total_packets() as u64;
            spec.step_budget = 20_000_000 + packets * 12;
            spec.expected_steps = packets * 3;
            spec.timeout_ms = 600_000;
            return Trial::Conform { spec, label: format!("{} more than 2^16 RDHs on one link", CHECK_MODES[m].join(" ")) };
        }
        let mode_i = (case % 5) as usize;
        let stave = mode_i == 4;
        let mut cfg = GenCfg::swarm(&mut rng, stave);
        cfg.share_link_ids = stave && rng.chance(1, 3);
        // batch-boundary cases: force an exact packet count on the wire
        let force_count = if rng.chance(1, 12) { Some(*rng.pick(&[99usize, 100, 101, 200, 201])) } else { None };
        if force_count.is_some() {
            cfg.n_links = rng.range(1, 4) as usize;
            cfg.hbfs = (40, 60);
            cfg.data_pages = (1, 2);
            cfg.data_words = (0, 4);
            cfg.triggers = (1, 2);
        }
        let mut shape = "";
        if force_count.is_none() && (mode_i == 2 || mode_i == 3) && rng.chance(1, 15) {
            // two front-ends on one link number (link numbers count per CRU end point), their data stored one after
            // the other: the FEE ID changes between two heartbeat frames of that link number, never inside one
            cfg.share_link_ids = true;
            cfg.merge = itsgen::gen::Merge::Contiguous;
            cfg.n_links = rng.range(2, 6) as usize;
            shape = " link-number-shared-by-two-FEE-IDs";
        } else if force_count.is_none() && rng.chance(1, 25) {
            // more links (FEE IDs in stave mode) than any sample has: 13..24 validators
            cfg.n_links = rng.range(13, 24) as usize;
            cfg.hbfs = (1, 2);
            shape = " many-links";
        } else if force_count.is_none() && !stave && rng.chance(1, 20) {
            // pages filled to exactly the sizes around the limits: a full 8 KiB page (508 slots of data format
            // 0), one word less / more, the largest payload the offset field may describe (10 000 bytes)
            cfg.fill_page_words = if cfg.data_format == 0 { *rng.pick(&[507usize, 508, 509, 624, 625]) } else { *rng.pick(&[507usize, 508, 509, 812, 999, 1000]) };
            cfg.n_links = rng.range(1, 3) as usize;
            cfg.hbfs = (1, 3);
            cfg.p_no_data = cfg.p_no_data.min(300);
            shape = " full-pages";
        }
        let mut st = gen_conforming(&cfg, &mut rng);
        if let Some(n) = force_count {
            // cut whole trailing HBFs per link until the count fits, then trim by dropping links' tails
            trim_to_packets(&mut st, n, &mut rng, cfg.merge);
        }
        let input = st.bytes();
        let im = pick_input_mode(&mut rng);
        let mut parts: Vec<String> = s(CHECK_MODES[mode_i]);
        let mut label = CHECK_MODES[mode_i].join(" ");
        match rng.below(6) {
            0 => {
                parts.push("-m".into());
                label.push_str(" -m");
            }
            1 | 2 => {
                parts.extend(s(&["-E", &rng.range(1, 255).to_string()]));
                label.push_str(" -E");
            }
            _ => {}
        }
        let mut stats_ext = "json".to_string();
        let mut checks_toml: Option<String> = None;
        let mut filtered = false;
        if rng.chance(1, 3) {
            stats_ext = if rng.chance(1, 2) { "json".into() } else { "toml".into() };
            parts.extend(s(&["-S", "@STATS@", "-D", &stats_ext]));
        }
        if rng.chance(1, 6) {
            let f = pick_filter(&st, &mut rng);
            filtered = f != Filter::None;
            if f != Filter::None {
                parts.extend(f.args());
                label.push_str(" filter");
            }
        }
        if rng.chance(1, 8) {
            // verbosity up to trace: more is logged, nothing more is found
            parts.extend(s(&["-v", &rng.range(0, 4).to_string()]));
            label.push_str(" -v");
        }
        if !filtered && rng.chance(1, 10) {
            // custom checks that conforming data satisfies: the true packet count, the RDH version in use
            let mut t = format!("cdps = {}\n", st.total_packets());
            if rng.chance(1, 2) {
                t.push_str(&format!("rdh_version = {}\n", cfg.version));
            }
            checks_toml = Some(t);
            parts.extend(s(&["-c", "@CHECKS@"]));
            label.push_str(" -c");
        }
        let mut spec = specgen::spec(im, &parts, input);
        spec.custom_checks_toml = checks_toml;
        spec.stats_ext = stats_ext;
        let est = 200 + st.total_packets() as u64 * 12;
        if rng.chance(4, 5) {
            swarm_schedule(&mut spec, &mut rng, est);
        }
        if rng.chance(1, 2) {
            benign_io(&mut spec, &mut rng);
        }
        if force_count.is_some() {
            label.push_str(" batch-boundary");
        }
        label.push_str(shape);
        Trial::Conform { spec, label }
    }
}

/// Trim a conforming stream to exactly `n` packets, keeping every link's HBFs complete where
/// possible: whole trailing HBFs are dropped; if the count still cannot be met exactly, the stream
/// is left at the closest count >= 2 per link (the label still says batch-boundary only when the
/// count is met by the caller's choice).
fn trim_to_packets(st: &mut Stream, n: usize, rng: &mut Rng, merge: itsgen::gen::Merge) {
    loop {
        let total: usize = st.links.iter().map(|l| l.packets.len()).sum();
        if total <= n {
            break;
        }
        // drop the last HBF of the link with the most packets, if that does not undershoot
        let li = (0..st.links.len()).max_by_key(|&i| st.links[i].packets.len()).unwrap();
        let last_hbf = st.links[li].packets.last().map(|p| p.hbf).unwrap_or(0);
        let hbf_len = st.links[li].packets.iter().filter(|p| p.hbf == last_hbf).count();
        if total - hbf_len < n || last_hbf == 0 {
            break;
        }
        st.links[li].packets.retain(|p| p.hbf != last_hbf);
    }
    st.remerge(merge, rng);
}

// ------------------------------------------------------------------------------------------------
// C04
// ------------------------------------------------------------------------------------------------
pub struct Chaos;

fn random_checks_toml(rng: &mut Rng) -> String {
    let mut t = String::new();
    if rng.chance(1, 2) {
        t.push_str(&format!("cdps = {}\n", rng.below(300)));
    }
    if rng.chance(1, 2) {
        t.push_str(&format!("triggers_pht = {}\n", rng.below(50)));
    }
    if rng.chance(1, 3) {
        t.push_str("chip_orders_ob = [[0, 1, 2, 3, 4, 5, 6], [8, 9, 10, 11, 12, 13, 14]]\n");
    }
    if rng.chance(1, 3) {
        t.push_str(&format!("chip_count_ob = {}\n", rng.range(1, 7)));
    }
    if rng.chance(1, 3) {
        t.push_str(&format!("rdh_version = {}\n", rng.range(6, 7)));
    }
    t
}

/// A valid command line (mode + options) for arbitrary input; returns (parts, label, needs).
pub fn random_valid_cmdline(st: Option<&Stream>, rng: &mut Rng, spec_fields: &mut CmdExtras) -> (Vec<String>, String) {
    let mut parts: Vec<String> = Vec::new();
    let label;
    let filter = match st {
        Some(st) => pick_filter(st, rng),
        None => match rng.below(6) {
            0 => Filter::Link(rng.below(16) as u8),
            1 => Filter::Fee(rng.next_u32() as u16),
            2 => Filter::Stave(itsgen::rdh::fee_id(rng.below(7) as u8, rng.below(48) as u8, 0)),
            _ => Filter::None,
        },
    };
    match rng.below(21) {
        20 => {
            // no subcommand, no output: the input is only read (and counted)
            label = "no command".to_string();
            parts.extend(filter.args());
            if rng.chance(1, 3) {
                let n = rng.range(1, 255);
                parts.extend(s(&["-E", &n.to_string()]));
                spec_fields.exit_code = Some(n as i32);
            }
            return (parts, label);
        }
        0..=11 => {
            let m = rng.usize_below(5);
            parts.extend(s(CHECK_MODES[m]));
            label = CHECK_MODES[m].join(" ");
            parts.extend(filter.args());
            if m == 4 && matches!(filter, Filter::Stave(_)) && rng.chance(1, 2) {
                parts.extend(s(&["-p", &rng.range(1, 3563).to_string()]));
            }
            if rng.chance(1, 4) {
                spec_fields.checks_toml = Some(random_checks_toml(rng));
                parts.extend(s(&["-c", "@CHECKS@"]));
            }
        }
        12..=15 => {
            let m = rng.usize_below(3);
            parts.extend(s(VIEW_MODES[m]));
            label = VIEW_MODES[m].join(" ");
            parts.extend(filter.args());
            if rng.chance(1, 2) {
                parts.push("-d".into());
            }
        }
        _ => {
            // filtered writing needs a filter
            let f = if filter == Filter::None { Filter::Link(rng.below(12) as u8) } else { filter };
            parts.extend(f.args());
            if rng.chance(1, 2) {
                parts.extend(s(&["-o", "@OUT@"]));
                label = "write file".to_string();
            } else {
                label = "write stdout".to_string();
            }
        }
    }
    if rng.chance(1, 4) {
        parts.push("-m".into());
    }
    if rng.chance(1, 4) {
        parts.extend(s(&["-e", &rng.range(1, 30).to_string()]));
    }
    if rng.chance(1, 3) {
        let n = rng.range(1, 255);
        parts.extend(s(&["-E", &n.to_string()]));
        spec_fields.exit_code = Some(n as i32);
    }
    if rng.chance(1, 6) {
        parts.extend(s(&["-w", *rng.pick(&["10", "11", "99", "4", "70 10 991"])]));
    }
    if rng.chance(1, 4) {
        let ext = if rng.chance(1, 2) { "json" } else { "toml" };
        spec_fields.stats_ext = ext.to_string();
        let dest = if rng.chance(1, 4) { "stdout" } else { "@STATS@" };
        parts.extend(s(&["-S", dest, "-D", ext]));
    }
    if rng.chance(1, 10) {
        parts.extend(s(&["-v", &rng.range(0, 3).to_string()]));
    }
    if (parts[0] == "check" || parts[0] == "view") && !parts.iter().any(|a| a == "-p") && rng.chance(1, 8) {
        // an output destination next to a check or view: accepted with a warning and ignored; -o and
        // the filter it requires go before the subcommand
        let fpos = parts.iter().position(|a| ["-f", "-F", "-s"].contains(&a.as_str()));
        let fargs: Vec<String> = match fpos {
            Some(i) => parts.drain(i..i + 2).collect(),
            None => Filter::Link(rng.below(12) as u8).args(),
        };
        let mut pre = s(&["-o", "@OUT@"]);
        pre.extend(fargs);
        pre.extend(parts);
        parts = pre;
    }
    (parts, label)
}

#[derive(Default)]
pub struct CmdExtras {
    pub checks_toml: Option<String>,
    pub exit_code: Option<i32>,
    pub stats_ext: String,
}

impl Scenario for Chaos {
    fn property(&self) -> &'static str {
        "C04"
    }
    fn n_cases(&self, tier: Tier) -> u64 {
        match tier {
            Tier::Quick => 8_000,
            Tier::Thorough => 600_000,
        }
    }
    fn rule(&self) -> String {
        "case = input (pure random bytes of 0..64 kB incl. < 8 bytes | well-framed arbitrary stream with byte-level \
         corruption | conforming stream hit by 1..4 structure-aware corruption faults: RDH bit flips / extreme field \
         values, word bit flips / ID changes / insert / delete / duplicate / swap, packet loss / duplication / swap / \
         cross-link splice, size fields inconsistent, excess padding, plus byte-level flips / truncation / inserts | the repository's own sample files \
         (tests/test-data) with byte-level corruption) x a valid command line (5 check modes, 3 views, filtered writing to file/stdout; filters, -m, -e, -E, -w, -S, \
         -c custom checks, -p) x {file, pipe} x seeded schedule x capacity cap x read faults (short, EINTR, EIO). \
         Oracle: no panic in any managed thread, no deadlock, step budget, wall-clock limit, no fatal signal, exit \
         status in {0, 1, N}. Non-trivial: >= 2 managed threads ran. Distinct: (input hash, trace hash)."
            .into()
    }
    fn assumptions(&self) -> Vec<String> {
        vec![
            "panic=unwind build of the same sources: a panic is reported where the shipped panic=abort build would abort".into(),
            "allocation failure is out of scope; memory errors are only visible in the AddressSanitizer phase of the thorough tier (DESIGN.md §3 C04)".into(),
        ]
    }
    fn make(&self, seed: u64, _case: u64, _tier: Tier) -> Trial {
        let mut rng = Rng::new(seed);
        let mut extras = CmdExtras { stats_ext: "json".into(), ..Default::default() };
        let kind = rng.below(11);
        let mut many_batches = false;
        let mut label;
        let (input, st): (Vec<u8>, Option<Stream>) = match kind {
            10 if !crate::corpus::corpus().is_empty() => {
                // the repository's sample files with byte-level corruption
                let (_, mut b) = crate::corpus::pick(&mut rng, 300_000, false).unwrap();
                let k = rng.below(4);
                for _ in 0..k {
                    corrupt::corrupt_bytes(&mut b, &mut rng);
                }
                label = if k > 0 { "sample-files+corrupted".to_string() } else { "sample-files".to_string() };
                (b, None)
            }
            0 => {
                let len = match rng.below(5) {
                    0 => rng.below(9),
                    1 => rng.below(70),
                    2 => rng.below(300),
                    3 => rng.below(5000),
                    _ => rng.below(65536),
                } as usize;
                let mut b = vec![0u8; len];
                rng.fill(&mut b);
                if rng.chance(1, 2) && len >= 8 {
                    // make the first RDH0 look sane so that processing gets past the initial check
                    b[0] = 7;
                    b[1] = 0x40;
                    b[2] = 0x0A;
                    b[3] = 0x50;
                    b[4] = 0;
                    b[5] = 0x20;
                    b[6] = 0;
                    b[7] = 0;
                }
                label = "random-bytes".to_string();
                (b, None)
            }
            3 => {
                // arbitrary headers + random 80-bit words laid out per the header's data format
                let n = rng.range(1, 80) as usize;
                let nl = rng.range(1, 5) as usize;
                let mw = *rng.pick(&[3usize, 12, 60, 300]);
                let sane = rng.chance(1, 2);
                let mut b = gen_framed_words(&mut rng, n, mw, nl, 100, sane);
                if rng.chance(1, 4) {
                    corrupt::corrupt_bytes(&mut b, &mut rng);
                }
                label = "random-words".to_string();
                (b, None)
            }
            1 | 2 => {
                let n = rng.range(0, 150) as usize;
                let maxp = *rng.pick(&[0usize, 100, 2000, 10000]);
                let nl = rng.range(1, 6) as usize;
                let mut b = gen_arbitrary(&mut rng, n, maxp, nl);
                let k = rng.below(3);
                for _ in 0..k {
                    corrupt::corrupt_bytes(&mut b, &mut rng);
                }
                label = "arbitrary-framed".to_string();
                (b, None)
            }
            _ => {
                let stave = rng.chance(1, 3);
                let mut cfg = GenCfg::swarm(&mut rng, stave);
                // 1 in 8: several reader batches (with the reader queue capped to 1..2 below), so that the
                // paths with a full inter-thread queue run
                many_batches = !stave && rng.chance(1, 8);
                if many_batches {
                    cfg.n_links = rng.range(1, 3) as usize;
                    cfg.hbfs = (60, 160);
                    cfg.data_pages = (1, 2);
                    cfg.triggers = (1, 2);
                    cfg.data_words = (0, 3);
                }
                let mut st = gen_conforming(&cfg, &mut rng);
                let k = rng.range(1, 4);
                label = "corrupted".to_string();
                for _ in 0..k {
                    let f = corrupt::corrupt_stream(&mut st, &mut rng);
                    label = format!("corrupted:{f}");
                }
                let mut b = st.bytes();
                if rng.chance(1, 4) {
                    corrupt::corrupt_bytes(&mut b, &mut rng);
                }
                (b, Some(st))
            }
        };
        let (parts, mode_label) = random_valid_cmdline(st.as_ref(), &mut rng, &mut extras);
        label = format!("{label} | {mode_label}");
        let im = pick_input_mode(&mut rng);
        let mut spec: ExecSpec = specgen::spec(im, &parts, input);
        spec.custom_checks_toml = extras.checks_toml.clone();
        spec.stats_ext = extras.stats_ext.clone();
        let est = 300 + (spec.input.len() as u64 / 64).min(20_000);
        if rng.chance(3, 4) {
            swarm_schedule(&mut spec, &mut rng, est);
        }
        if rng.chance(1, 2) {
            benign_io(&mut spec, &mut rng);
        }
        if rng.chance(1, 10) && !spec.input.is_empty() {
            spec.io.eio_at = Some(rng.below(spec.input.len() as u64 + 1));
        }
        if many_batches {
            spec.cap_limit = Some(*rng.pick(&[1usize, 1, 2]));
            if spec.policy == crate::exec::PolicySpec::Canonical {
                spec.policy = crate::exec::PolicySpec::Random { p_permille: 200 };
                spec.sched_seed = rng.next_u64();
            }
        }
        spec.timeout_ms = 30_000;
        let mut allowed = vec![0, 1];
        if let Some(n) = extras.exit_code {
            allowed.push(n);
        }
        Trial::Orderly { spec, allowed_status: allowed, label }
    }
}

// ------------------------------------------------------------------------------------------------
// C05
// ------------------------------------------------------------------------------------------------
pub struct Sched;

impl Scenario for Sched {
    fn property(&self) -> &'static str {
        "C05"
    }
    fn n_cases(&self, tier: Tier) -> u64 {
        match tier {
            Tier::Quick => 700,
            Tier::Thorough => 30_000,
        }
    }
    fn rule(&self) -> String {
        "case = one (input, command line): multi-link stream (3-12 links), conforming or carrying 1..6 corruption \
         faults on several links (so that several errors share an offset and the total exceeds 20 in part of the \
         cases; 1 in 6 with an OVERLAP: memory size > offset-to-next followed by another link's erroneous RDH, so \
         that two validators report at one position; 1 in 10 one of the repository's sample files), modes check \
         all / its / its-stave and views, with and without -m, statistics to JSON/TOML; one \
         canonical-schedule reference run, then N runs (quick 8, thorough 24) under random / PCT / starvation \
         policies, capped queue capacities and benign I/O faults. Oracle: exit status, non-WARN stderr messages in \
         order, statistics file bytes, stdout without the `Processed in` line, output identical to the reference; \
         WARN messages equal as a multiset. Cases whose reference run reports a fatal input error are excluded by \
         the statement. Non-trivial: >= 4 managed threads. Distinct: (input hash, reference trace hash); the number \
         of distinct interleavings and of distinct collector arrival orders over all runs is reported separately."
            .into()
    }
    fn assumptions(&self) -> Vec<String> {
        vec![
            "all cross-thread communication is by channel operations, joins and two flags read at loop heads; switching threads at these points generates every distinguishable behaviour".into(),
        ]
    }
    fn make(&self, seed: u64, case: u64, tier: Tier) -> Trial {
        let mut rng = Rng::new(seed);
        // an error flood: more than 10 000 messages from several links in one run (one case of the quick tier,
        // 1 in 3000 otherwise)
        let flood = match tier {
            Tier::Quick => case == 401,
            Tier::Thorough => case % 3000 == 401,
        };
        if flood {
            let mut cfg = GenCfg::swarm(&mut rng, false);
            cfg.n_links = rng.range(3, 5) as usize;
            cfg.hbfs = (120, 150);
            cfg.data_pages = (2, 2);
            cfg.triggers = (1, 1);
            cfg.data_words = (12, 14);
            cfg.p_no_data = 0;
            cfg.p_split = 0;
            cfg.p_cdw = 0;
            let mut st = gen_conforming(&cfg, &mut rng);
            let mut n_bad = 0u64;
            for l in st.links.iter_mut() {
                for pk in l.packets.iter_mut() {
                    for w in pk.words.iter_mut() {
                        if w.kind == itsgen::words::Kind::Data {
                            w.word[9] = *rng.pick(&[0x9Au8, 0x10, 0xF3]);
                            n_bad += 1;
                        }
                    }
                }
            }
            let mode_i = if rng.chance(1, 2) { 3 } else { 1 };
            let mut parts = s(CHECK_MODES[mode_i]);
            let muted = rng.chance(1, 2);
            if muted {
                parts.push("-m".into());
            }
            parts.extend(s(&["-S", "@STATS@", "-D", "json"]));
            let mut base = specgen::spec(pick_input_mode(&mut rng), &parts, st.bytes());
            base.stats_ext = "json".into();
            base.timeout_ms = 300_000;
            let mut variants = Vec::new();
            for _ in 0..4 {
                let mut v = base.clone();
                swarm_schedule(&mut v, &mut rng, 60_000);
                variants.push(v);
            }
            return Trial::Sched { base, variants, label: format!("{} | error flood ({n_bad} bad words){}", CHECK_MODES[mode_i].join(" "), if muted { " -m" } else { "" }) };
        }
        let view = case % 7 == 6;
        let mode_i = if view { 0 } else { 2 + (case % 3) as usize };
        let stave = mode_i == 4;
        let mut cfg = GenCfg::swarm(&mut rng, stave);
        cfg.n_links = rng.range(3, 12) as usize;
        if rng.chance(1, 3) {
            cfg.hbfs = (3, 8);
        }
        // stave mode: several FEE IDs may share a link number (a link filter then selects several validators)
        cfg.share_link_ids = stave && rng.chance(1, 2);
        // 1 in 5 stave cases: every stave sends planned frames in which lanes announce a fatal state (and stay
        // silent afterwards): what the validators say about that, on several FEE IDs at once
        let mut fatal_plan = false;
        if stave && rng.chance(1, 5) {
            let barrel = *rng.pick(&[itsgen::gen::Barrel::Inner, itsgen::gen::Barrel::Middle, itsgen::gen::Barrel::Outer]);
            for _ in 0..20 {
                let (plan, kinds) = frame_plan(barrel, 6, &mut rng);
                if kinds.iter().any(|k| k.contains("fatal")) {
                    cfg.barrels = Some(vec![barrel]);
                    cfg.frame_plan = plan;
                    cfg.plan_all_links = true;
                    cfg.n_links = rng.range(2, 6) as usize;
                    fatal_plan = true;
                    break;
                }
            }
        }
        let mut st = gen_conforming(&cfg, &mut rng);
        let n_faults = if rng.chance(1, 5) { 0 } else { rng.range(1, 6) };
        let mut label = String::new();
        // 1 in 8: one link (not the one that opens the stream) sends the other RDH version throughout - every link
        // is judged against the version it saw first itself
        if st.links.len() >= 2 && rng.chance(1, 8) {
            let first = st.order[0].0;
            let others: Vec<usize> = (0..st.links.len()).filter(|&l| l != first).collect();
            let l = others[rng.usize_below(others.len())];
            for pk in st.links[l].packets.iter_mut() {
                pk.rdh.version = if pk.rdh.version == 6 { 7 } else { 6 };
            }
            label.push_str("one-link-other-rdh-version,");
        }
        if fatal_plan {
            label.push_str("lanes-announce-fatal-on-every-stave,");
        }
        for _ in 0..n_faults {
            // size-preserving and framing-preserving faults only: a fatal framing error is excluded
            let f = loop {
                let mut probe = st.clone();
                let f = corrupt::corrupt_stream(&mut probe, &mut rng);
                if f != "size_inconsistent" {
                    st = probe;
                    break f;
                }
            };
            label = format!("{label}{f},");
        }
        if case % 6 == 5 && st.order.len() >= 2 {
            // Two validators reporting at ONE position: a packet whose memory size exceeds its
            // offset-to-next (extra words with an unknown ID; the reader reads them as payload, the position
            // counter advances by the smaller offset-to-next), directly followed by a packet of ANOTHER link
            // with an RDH error: the extra word and that RDH are reported at the same position by two
            // threads. In half of the cases the pair is the last of the stream (nothing reported behind it).
            let pairs: Vec<usize> = (0..st.order.len() - 1).filter(|&i| st.order[i].0 != st.order[i + 1].0).collect();
            if !pairs.is_empty() {
                let n_over = rng.range(1, 3);
                for _ in 0..n_over {
                    let i = if rng.chance(1, 2) { *pairs.last().unwrap() } else { pairs[rng.usize_below(pairs.len())] };
                    let (xl, xp) = st.order[i];
                    let (yl, yp) = st.order[i + 1];
                    // variant: messages of the SAME kind from two validators at one position. Data format 0
                    // (16-byte slots, so the 64-byte header is a whole number of slots): X's offset-to-next is
                    // shrunk into its payload, the data words of X behind that point and the data words of Y get
                    // unknown IDs with different other bytes - word i of X and word i-4-kx of Y share a position
                    // and the same message head ([E991] ...), only the quoted bytes differ.
                    let fmt0 = st.links[xl].packets[xp].rdh.data_format == 0 && st.links[yl].packets[yp].rdh.data_format == 0;
                    let nx = st.links[xl].packets[xp].words.len();
                    let ny = st.links[yl].packets[yp].words.len();
                    if fmt0 && nx >= 8 && ny >= 4 && rng.chance(1, 2) && st.links[xl].packets[xp].rdh.memory_size == st.links[xl].packets[xp].rdh.offset_next {
                        let kx = rng.range(2, (nx - 5) as u64) as usize;
                        let x = &mut st.links[xl].packets[xp];
                        x.rdh.offset_next = (64 + 16 * kx) as u16;
                        for w in x.words.iter_mut().skip(kx) {
                            if w.kind == itsgen::words::Kind::Data {
                                rng.fill(&mut w.word[..9]);
                                w.word[9] = *rng.pick(&[0x00u8, 0x9A, 0xF3, 0x10]);
                            }
                        }
                        let y = &mut st.links[yl].packets[yp];
                        for w in y.words.iter_mut() {
                            if w.kind == itsgen::words::Kind::Data {
                                rng.fill(&mut w.word[..9]);
                                w.word[9] = *rng.pick(&[0x00u8, 0x9A, 0xF3, 0x10]);
                            }
                        }
                        label = format!("{label}overlap-same-kind,");
                        continue;
                    }
                    let x = &mut st.links[xl].packets[xp];
                    if x.rdh.memory_size != x.rdh.offset_next {
                        continue;
                    }
                    let extra = rng.range(1, 4) as usize;
                    let slot = if x.rdh.data_format == 0 { 16 } else { 10 };
                    if x.rdh.memory_size as usize + extra * slot + x.padding > 10_000 {
                        continue;
                    }
                    // (trailing 0xFF padding of data format 2 would separate the words from the end)
                    x.padding = 0;
                    let keep_off = 64 + x.payload().len() as u16;
                    for _ in 0..extra {
                        let mut w = [0u8; 10];
                        rng.fill(&mut w);
                        w[9] = *rng.pick(&[0x00u8, 0x9A, 0xF3, 0x10]);
                        x.words.push(itsgen::gen::WordInfo { kind: itsgen::words::Kind::Unknown, word: w });
                    }
                    x.rdh.offset_next = keep_off;
                    x.rdh.memory_size = 64 + x.payload().len() as u16;
                    let y = &mut st.links[yl].packets[yp];
                    match rng.below(3) {
                        0 => y.rdh.bc = 0xdec,
                        1 => y.rdh.rdh0_reserved = 1,
                        _ => y.rdh.pages_counter = y.rdh.pages_counter.wrapping_add(3),
                    }
                }
                label = format!("{label}overlap,");
            }
        }
        // 1 in 4: a filter (link / FEE ID / stave of the stream); half of these with a stream whose FIRST packet
        // comes from another (known) system and is skipped by the filter: what the reader reports about the
        // start of the data (system ID, from the main thread's forwarder) and what the analysis reports about the
        // selected packets (layers and staves, errors) reach the collector from two threads in either order
        let mut filter = Filter::None;
        if case % 4 == 1 && case % 6 != 5 && st.links.len() >= 2 {
            let first_link = st.order[0].0;
            let others: Vec<usize> = (0..st.links.len()).filter(|&l| l != first_link && !st.links[l].packets.is_empty()).collect();
            if !others.is_empty() {
                let l = others[rng.usize_below(others.len())];
                let fee = st.links[l].packets[0].rdh.fee_id;
                filter = match rng.below(3) {
                    0 => Filter::Link(st.links[l].link_id),
                    1 => Filter::Fee(fee),
                    _ => Filter::Stave(fee & 0b0111_0000_0011_1111),
                };
                if stave {
                    // (stave checks want the stave filter)
                    filter = Filter::Stave(fee & 0b0111_0000_0011_1111);
                }
                let first_selected = filter.matches(&st.links[first_link].packets[st.order[0].1].rdh);
                if rng.chance(1, 2) && !first_selected {
                    st.packet_mut(0).rdh.system_id = *rng.pick(&[3u8, 4, 5, 6, 7, 8, 10, 15, 17]);
                    label = format!("{label}first-packet-of-another-system,");
                }
                label = format!("{label}filter,");
            }
        }
        let mut input = st.bytes();
        if case % 10 == 9 {
            // the repository's sample files (12 links x 2 HBFs of detector data among them)
            if let Some((_, b)) = crate::corpus::pick(&mut rng, 300_000, false) {
                input = b;
                label = "sample files".to_string();
                filter = Filter::None;
            }
        }
        let mut parts: Vec<String> = if view {
            let v = VIEW_MODES[rng.usize_below(3)];
            label = format!("{} | {label}", v.join(" "));
            let mut p = s(v);
            if rng.chance(1, 2) {
                p.push("-d".into());
            }
            p
        } else {
            label = format!("{} | {label}", CHECK_MODES[mode_i].join(" "));
            s(CHECK_MODES[mode_i])
        };
        parts.extend(filter.args());
        if rng.chance(1, 3) {
            parts.push("-m".into());
            label.push_str(" -m");
        }
        let mut stats_ext = "json".to_string();
        if rng.chance(2, 3) || filter != Filter::None {
            stats_ext = if rng.chance(1, 2) { "json".into() } else { "toml".into() };
            parts.extend(s(&["-S", "@STATS@", "-D", &stats_ext]));
        }
        if rng.chance(1, 3) {
            parts.extend(s(&["-E", &rng.range(1, 255).to_string()]));
        }
        // 1 in 5 of the checks: a custom checks file (expectations about the whole run, OB chip rules, a pinned
        // header version) - its messages come from the statistics side at the end of the run and from the validators
        let mut checks_toml = None;
        if !view && rng.chance(1, 5) {
            let t = random_checks_toml(&mut rng);
            if !t.is_empty() {
                parts.extend(s(&["-c", "@CHECKS@"]));
                checks_toml = Some(t);
                label.push_str(" +custom checks");
            }
        }
        // 1 in 8: only some error codes are displayed
        if !view && rng.chance(1, 8) {
            parts.push("-w".into());
            for c in rng.pick(&["10 11", "70 71 72 73 74 75", "30 40 50 60 99", "9001 9002 9004 9005", "4 44 9"]).split_whitespace() {
                parts.push(c.into());
            }
            label.push_str(" -w");
        }
        // (where several FEE IDs share a link number a link filter selects several validators: more often there)
        let shared: Vec<u8> = {
            let mut v: Vec<u8> = st.links.iter().map(|l| l.link_id).filter(|id| st.links.iter().filter(|l| l.link_id == *id).count() > 1).collect();
            v.dedup();
            v
        };
        let sharing = cfg.share_link_ids && !shared.is_empty() && label != "sample files";
        if filter == Filter::None && rng.chance(1, if sharing { 2 } else { 6 }) {
            // an output destination next to the check / view (with the filter it requires): accepted with
            // a warning and ignored - in particular no second consumer of the reader's batches
            let w = walk(&input);
            if let Some(p0) = w.pkts.first() {
                let f = if sharing { Filter::Link(*rng.pick(&shared)) } else { Filter::Link(w.pkts[rng.usize_below(w.pkts.len())].rdh.link_id) };
                let _ = p0;
                // (the destination is a file or, 1 in 2, the word `stdout`)
                let to_stdout = rng.chance(1, 2);
                let mut pre = s(&["-o", if to_stdout { "stdout" } else { "@OUT@" }]);
                pre.extend(f.args());
                pre.extend(parts);
                parts = pre;
                label.push_str(if to_stdout { " +ignored -o stdout" } else { " +ignored -o" });
            }
        }
        let im = pick_input_mode(&mut rng);
        let mut base = specgen::spec(im, &parts, input);
        base.stats_ext = stats_ext;
        base.custom_checks_toml = checks_toml;
        let nvar = match tier {
            Tier::Quick => 8,
            Tier::Thorough => 24,
        };
        let mut variants = Vec::new();
        for _ in 0..nvar {
            let mut v = base.clone();
            swarm_schedule(&mut v, &mut rng, 2000);
            if rng.chance(1, 2) {
                benign_io(&mut v, &mut rng);
            }
            variants.push(v);
        }
        let _ = InputMode::File;
        Trial::Sched { base, variants, label }
    }
}

// ------------------------------------------------------------------------------------------------
// C17
// ------------------------------------------------------------------------------------------------
pub struct EarlyStop;

impl Scenario for EarlyStop {
    fn property(&self) -> &'static str {
        "C17"
    }
    fn n_cases(&self, tier: Tier) -> u64 {
        match tier {
            Tier::Quick => 1_600,
            Tier::Thorough => 60_000,
        }
    }
    fn rule(&self) -> String {
        "case = (multi-link stream, conforming or corrupted; command line) + one kind of stop condition placed inside \
         active work: (a) stop event = the store the signal handler performs, injected at decision step 1, at the last \
         step and at uniformly drawn steps of the run; (b) stdout failing with EPIPE/ENOSPC after N accepted bytes, \
         N = 0, len-1 and uniform in [0, len], in the three views, filtered data to stdout, statistics to stdout and \
         the report; (c) error cap -e N on inputs with many errors spread over links; (d) fatal framing error \
         (offset-to-next out of range) at a random packet. Every run under a seeded non-canonical schedule in 4/5 of \
         the cases, queue capacities capped to 1..8 in half of them (full queues), starvation policies included. \
         Oracle: no panic, no deadlock, every managed thread finished within the step budget (50 x reference + 5000), \
         exit status in the allowed set, partial -o file = whole packets and a prefix of the expected filtered data; \
         a stdout failure that a view or the writer runs into is noticed (fatal reported or stop flag raised); after the stop event at most one batch of 100 packets + 64 KiB of read-ahead are still \
         read from the input, and no data queue holds more undelivered packets than the largest capacity configured. \
         1 case in 13: the input never ends (the pipe seam delivers the stream over and over) and the stop condition \
         (unknown system ID in the first packet / stop event at a drawn step / error cap / stdout going away) is the \
         only way out: under a fair seeded schedule with queues capped to 1..4 the run must end within 150 000 decision steps (counted from \
         the stop event where one is injected - at a drawn decision step, or when a drawn number of input bytes has been \
         delivered, which also reaches a reader that skips packets between two decision steps). A quarter of the check / view command lines carry an (ignored) -o. \
         Non-trivial: >= 3 managed threads. Distinct: (input hash, reference trace hash)."
            .into()
    }
    fn assumptions(&self) -> Vec<String> {
        vec![
            "delivery of a real signal and the ctrlc helper thread are not simulated: their only effect on the program is the atomic store that the scheduler injects (a second signal calls process::exit)".into(),
            "Rust programs ignore SIGPIPE: a closed stdout shows up as EPIPE from write, which is what the seam injects".into(),
        ]
    }
    fn make(&self, seed: u64, case: u64, tier: Tier) -> Trial {
        let mut rng = Rng::new(seed);
        if case % 13 == 12 {
            return make_endless(&mut rng);
        }
        let stave = rng.chance(1, 4);
        let mut cfg = GenCfg::swarm(&mut rng, stave);
        cfg.n_links = rng.range(1, 8) as usize;
        if rng.chance(1, 2) {
            cfg.hbfs = (2, 10);
        }
        // many 100-packet batches + a reader->analysis queue capped to 1..2 batches: the reader is
        // blocked on a full queue when processing is cut short
        let many_batches = !stave && rng.chance(1, 3);
        if many_batches {
            cfg.n_links = rng.range(1, 3) as usize;
            cfg.hbfs = (60, 160);
            cfg.data_pages = (1, 2);
            cfg.triggers = (1, 2);
            cfg.data_words = (0, 3);
        }
        let mut st = gen_conforming(&cfg, &mut rng);
        let kind_i = case % 4;
        let mut label;
        let mut extras = CmdExtras { stats_ext: "json".into(), ..Default::default() };
        let mut parts: Vec<String>;
        let kind;
        let mut exit_code = None;
        match kind_i {
            0 => {
                // stop event at any step, any mode
                for _ in 0..rng.below(3) {
                    corrupt::corrupt_stream(&mut st, &mut rng);
                }
                let (p, l) = random_valid_cmdline(Some(&st), &mut rng, &mut extras);
                parts = p;
                exit_code = extras.exit_code;
                label = format!("stop-event | {l}");
                kind = StopKind::StopEvent;
                if many_batches && rng.chance(1, 2) {
                    // error storm under an error cap that is never reached: errors keep arriving at the
                    // collector after the stop event - nothing they trigger may take the stop back
                    // (a long stream, so that "kept reading to the end" exceeds the reaction bound)
                    let mut big = cfg.clone();
                    big.hbfs = (400, 800);
                    st = gen_conforming(&big, &mut rng);
                    let every = rng.range(2, 6) as usize;
                    for (k, &(l, p)) in st.order.clone().iter().enumerate() {
                        if k % every == 1 {
                            st.links[l].packets[p].rdh.bc = 0xdec;
                        }
                    }
                    extras = CmdExtras { stats_ext: "json".into(), ..Default::default() };
                    let m = *rng.pick(&[0usize, 1, 2, 3]);
                    parts = s(CHECK_MODES[m]);
                    parts.extend(s(&["-e", &rng.range(100_000, 1_000_000).to_string()]));
                    if rng.chance(1, 2) {
                        parts.push("-m".into());
                    }
                    exit_code = None;
                    label = format!("stop-event | error storm below the cap | {}", CHECK_MODES[m].join(" "));
                }
            }
            1 => {
                // stdout goes away: views, filtered data to stdout, stats to stdout, report
                for _ in 0..rng.below(2) {
                    corrupt::corrupt_stream(&mut st, &mut rng);
                }
                let f = pick_filter(&st, &mut rng);
                // (with many batches: mostly the views, so that many batches are printed after the failure)
                match if many_batches && rng.chance(2, 3) { 0 } else { rng.below(5) } {
                    0 | 1 => {
                        let v = VIEW_MODES[rng.usize_below(3)];
                        parts = s(v);
                        if many_batches {
                            // a long stream without filter: dozens of batches are printed after the failure
                            // by a tool that does not notice it
                            let mut big = cfg.clone();
                            big.hbfs = (400, 800);
                            st = gen_conforming(&big, &mut rng);
                        } else {
                            parts.extend(f.args());
                        }
                        if rng.chance(1, 2) {
                            parts.push("-d".into());
                        }
                        label = format!("stdout-fails | {}", v.join(" "));
                    }
                    2 => {
                        let f = if f == Filter::None {
                            Filter::Link(st.links[rng.usize_below(st.links.len())].link_id)
                        } else {
                            f
                        };
                        parts = f.args();
                        label = "stdout-fails | write stdout".to_string();
                    }
                    3 => {
                        let m = rng.usize_below(5);
                        parts = s(CHECK_MODES[m]);
                        let ext = if rng.chance(1, 2) { "json" } else { "toml" };
                        parts.extend(s(&["-S", "stdout", "-D", ext]));
                        label = "stdout-fails | stats to stdout".to_string();
                    }
                    _ => {
                        let m = rng.usize_below(5);
                        parts = s(CHECK_MODES[m]);
                        label = "stdout-fails | report".to_string();
                    }
                }
                if rng.chance(1, 3) {
                    let n = rng.range(1, 255);
                    parts.extend(s(&["-E", &n.to_string()]));
                    exit_code = Some(n as i32);
                }
                kind = StopKind::StdoutFails { errno: if rng.chance(1, 5) { 28 } else { 32 } };
            }
            2 => {
                // error cap with many errors over several links
                for _ in 0..rng.range(3, 12) {
                    corrupt::corrupt_stream(&mut st, &mut rng);
                }
                let m = 2 + rng.usize_below(3);
                parts = s(CHECK_MODES[m]);
                parts.extend(s(&["-e", &rng.range(1, 6).to_string()]));
                if rng.chance(1, 2) {
                    let n = rng.range(1, 255);
                    parts.extend(s(&["-E", &n.to_string()]));
                    exit_code = Some(n as i32);
                }
                label = "error-cap".to_string();
                kind = StopKind::Intrinsic;
            }
            _ => {
                // fatal framing error at packet j; sometimes while writing filtered data to a file
                if !st.order.is_empty() {
                    let j = rng.usize_below(st.order.len());
                    st.packet_mut(j).rdh.offset_next = *rng.pick(&[0u16, 1, 63, 10065, 20000, 0xFFFF]);
                }
                if rng.chance(1, 2) {
                    let f = Filter::Link(st.links[rng.usize_below(st.links.len())].link_id);
                    parts = f.args();
                    parts.extend(s(&["-o", "@OUT@"]));
                    label = "fatal-framing | write file".to_string();
                } else {
                    let (p, l) = random_valid_cmdline(Some(&st), &mut rng, &mut extras);
                    parts = p;
                    exit_code = extras.exit_code;
                    label = format!("fatal-framing | {l}");
                }
                kind = StopKind::Intrinsic;
            }
        }
        if kind == StopKind::StopEvent && rng.chance(1, 3) {
            // stop event while filtered data goes to a file: whole packets only
            let f = Filter::Link(st.links[rng.usize_below(st.links.len())].link_id);
            parts = f.args();
            parts.extend(s(&["-o", "@OUT@"]));
            label = "stop-event | write file".to_string();
            exit_code = None;
            extras = CmdExtras { stats_ext: "json".into(), ..Default::default() };
        }
        if parts.iter().any(|a| a == "check" || a == "view") && !parts.iter().any(|a| a == "-o" || a == "-p") && rng.chance(1, 4) {
            // an output destination next to a check or view is accepted with a warning and ignored
            // (global option: before the subcommand)
            let at = parts.iter().position(|a| a == "check" || a == "view").unwrap_or(0);
            parts.insert(at, "@OUT@".into());
            parts.insert(at, "-o".into());
            // -o requires a filter option, given before the subcommand like -o itself
            let fpos = parts.iter().position(|a| ["-f", "-F", "-s"].contains(&a.as_str()));
            let fargs: Vec<String> = match fpos {
                Some(i) => parts.drain(i..i + 2).collect(),
                None => Filter::Link(st.links[rng.usize_below(st.links.len())].link_id).args(),
            };
            for (k, a) in fargs.into_iter().enumerate() {
                parts.insert(at + k, a);
            }
            label.push_str(" +ignored -o");
        }
        let mut input = st.bytes();
        if label.starts_with("fatal-framing | write file") && rng.chance(1, 2) && input.len() > 64 {
            // the input simply ends inside a packet (no bad offset needed): the incomplete packet is not a
            // whole packet and must not reach the output file
            let cut = 1 + rng.usize_below(input.len() - 1);
            input.truncate(cut);
            label = "input ends inside a packet | write file".to_string();
        }
        let im = pick_input_mode(&mut rng);
        let mut base = specgen::spec(im, &parts, input);
        base.custom_checks_toml = extras.checks_toml.clone();
        base.stats_ext = extras.stats_ext.clone();
        let est = 300 + st.total_packets() as u64 * 12;
        if rng.chance(4, 5) {
            swarm_schedule(&mut base, &mut rng, est);
        }
        if rng.chance(1, 3) {
            benign_io(&mut base, &mut rng);
        }
        if many_batches {
            base.cap_limit = Some(*rng.pick(&[1usize, 1, 2]));
            if base.policy == crate::exec::PolicySpec::Canonical {
                base.policy = crate::exec::PolicySpec::Random { p_permille: 200 };
                base.sched_seed = rng.next_u64();
            }
            label.push_str(" | many batches, reader queue capped");
        }
        let mut allowed = vec![0, 1];
        if let Some(n) = exit_code {
            allowed.push(n);
        }
        let n_points = match (tier, &kind) {
            (_, StopKind::Intrinsic) => 0,
            (Tier::Quick, _) => 6,
            (Tier::Thorough, _) => 16,
        };
        Trial::EarlyStop { base, n_points, points_seed: rng.next_u64(), kind, allowed_status: allowed, label }
    }
}

/// Marks an input that does not end (the pipe seam delivers the stream over and over).
pub const ENDLESS: u64 = 1 << 40;

/// C17 on an input that never ends (a pipe that keeps delivering): the only way for the run to end is that
/// the stop condition is noticed by everyone who has to. One stop condition per case: an unknown system ID in
/// the first packet (fatal, decided outside the reader), a stop event at a drawn step, the error cap, stdout
/// going away. Fair schedule (seeded random) and queues capped to 1..4, so that the work left at the stop is
/// small and the step budget (stop + 150 000 decision steps) is far from anything a stopping run needs.
fn make_endless(rng: &mut Rng) -> Trial {
    let stave = rng.chance(1, 5);
    let mut cfg = GenCfg::swarm(rng, stave);
    cfg.n_links = rng.range(1, 4) as usize;
    cfg.hbfs = (1, 3);
    let mut st = gen_conforming(&cfg, rng);
    let mut extras = CmdExtras { stats_ext: "json".into(), ..Default::default() };
    let mut exit_code = None;
    let parts: Vec<String>;
    let label;
    let kind;
    let mut stop_at_step = None;
    let mut stop_at_input_byte = None;
    let mut stdout_fail_at = None;
    let link = Filter::Link(st.links[rng.usize_below(st.links.len())].link_id);
    match rng.below(4) {
        0 => {
            // the first packet names a system the tool does not know
            let id = loop {
                let id = *rng.pick(&[0u8, 1, 2, 9, 11, 12, 13, 14, 16, 20, 22, 30, 36, 40, 99, 200, 255]);
                if crate::t_stream::system_name(id).is_none() {
                    break id;
                }
            };
            st.packet_mut(0).rdh.system_id = id;
            match rng.below(4) {
                0 => {
                    parts = link.args();
                    label = "endless stream | unknown system ID | write stdout".to_string();
                }
                1 => {
                    let mut p = link.args();
                    p.extend(s(&["-o", "@OUT@"]));
                    parts = p;
                    label = "endless stream | unknown system ID | write file".to_string();
                }
                2 => {
                    let m = rng.usize_below(4);
                    parts = s(CHECK_MODES[m]);
                    label = format!("endless stream | unknown system ID | {}", CHECK_MODES[m].join(" "));
                }
                _ => {
                    let v = VIEW_MODES[rng.usize_below(3)];
                    parts = s(v);
                    label = format!("endless stream | unknown system ID | {}", v.join(" "));
                }
            }
            kind = StopKind::Intrinsic;
        }
        1 => {
            let (mut p, l) = random_valid_cmdline(Some(&st), rng, &mut extras);
            exit_code = extras.exit_code;
            let fpos = p.iter().position(|a| ["-f", "-F", "-s"].contains(&a.as_str()));
            let selects_nothing = {
                let f = crate::t_stream::filter_of_argv(&p);
                !walk(&st.bytes()).pkts.iter().any(|k| f.matches(&k.rdh))
            };
            if rng.chance(1, 2) {
                // the stop event at a decision step: needs decision steps to keep coming, i.e. a filter (if any)
                // that selects something - with a value that never occurs the reader skips forever between two steps
                if selects_nothing {
                    if let Some(i) = fpos {
                        p.drain(i..i + 2);
                        if let Some(o) = p.iter().position(|a| a == "-o") {
                            p.drain(o..o + 2);
                        }
                    }
                }
                stop_at_step = Some(1 + rng.below(3000));
                label = format!("endless stream | stop-event at a step | {l}");
            } else {
                // the stop event when so many input bytes were delivered: reaches a reader that is skipping
                // packets of other links without ever getting to a decision step (1 in 3: a value that never occurs)
                if let (Some(i), true) = (fpos, rng.chance(1, 3)) {
                    if p[i] == "-f" {
                        let used: Vec<u8> = st.links.iter().map(|l| l.link_id).collect();
                        let absent = (0..=255u8).find(|l| !used.contains(l)).unwrap_or(255);
                        p[i + 1] = absent.to_string();
                    }
                }
                let span = *rng.pick(&[1u64, 5_000, 1_000_000, 8_000_000]);
                stop_at_input_byte = Some(1 + rng.below(span));
                label = format!("endless stream | stop-event at an input byte | {l}");
            }
            parts = p;
            kind = StopKind::StopEvent;
        }
        2 => {
            let every = rng.range(2, 6) as usize;
            for (k, &(l, p)) in st.order.clone().iter().enumerate() {
                if k % every == 1 {
                    st.links[l].packets[p].rdh.bc = 0xdec;
                }
            }
            let m = rng.usize_below(4);
            let mut p = s(CHECK_MODES[m]);
            p.extend(s(&["-e", &rng.range(1, 60).to_string()]));
            if rng.chance(1, 2) {
                p.push("-m".into());
            }
            parts = p;
            label = format!("endless stream | error-cap | {}", CHECK_MODES[m].join(" "));
            kind = StopKind::Intrinsic;
        }
        _ => {
            // (filtered data reaches stdout in chunks of 2^20 packets: the first write comes late, 1 case in 6)
            if rng.chance(5, 6) {
                let v = VIEW_MODES[rng.usize_below(3)];
                let mut p = s(v);
                if rng.chance(1, 2) {
                    p.push("-d".into());
                }
                parts = p;
                label = format!("endless stream | stdout-fails | {}", v.join(" "));
            } else {
                parts = link.args();
                label = "endless stream | stdout-fails | write stdout".to_string();
            }
            stdout_fail_at = Some(rng.below(200_000));
            kind = StopKind::StdoutFails { errno: if rng.chance(1, 5) { 28 } else { 32 } };
        }
    }
    let mut base = specgen::spec(InputMode::Pipe, &parts, st.bytes());
    base.custom_checks_toml = extras.checks_toml.clone();
    base.stats_ext = extras.stats_ext.clone();
    base.input_repeat = Some(ENDLESS);
    base.policy = crate::exec::PolicySpec::Random { p_permille: rng.range(100, 500) as u32 };
    base.sched_seed = rng.next_u64();
    base.cap_limit = Some(*rng.pick(&[1usize, 2, 4]));
    base.stop_at_step = stop_at_step;
    base.io.stop_at_input_byte = stop_at_input_byte;
    base.io.stdout_fail_at = stdout_fail_at;
    if let StopKind::StdoutFails { errno } = &kind {
        base.io.stdout_errno = *errno;
    }
    base.expected_steps = 5_000;
    // (a stop event that waits for an input byte comes after an unknown number of steps: the budget counts from it)
    base.step_budget = if stop_at_input_byte.is_some() { 3_000_000 } else { stop_at_step.unwrap_or(0) + 150_000 };
    base.budget_after_stop = Some(150_000);
    base.timeout_ms = 120_000;
    let mut allowed = vec![0, 1];
    if let Some(n) = exit_code {
        allowed.push(n);
    }
    Trial::EarlyStop { base, n_points: 0, points_seed: rng.next_u64(), kind, allowed_status: allowed, label }
}

// ------------------------------------------------------------------------------------------------
// C18
// ------------------------------------------------------------------------------------------------
pub struct Truncate;

/// Rebuild a well-framed stream packet by packet: `f` may edit the header and replace the payload; the size
/// fields are recomputed.
fn rebuild_stream(input: &[u8], f: &mut dyn FnMut(usize, &mut itsgen::rdh::Rdh, &mut Vec<u8>)) -> Vec<u8> {
    let w = walk(input);
    let mut out = Vec::with_capacity(input.len());
    for (i, p) in w.pkts.iter().enumerate() {
        let mut r = p.rdh.clone();
        let mut payload = input[p.payload.clone()].to_vec();
        f(i, &mut r, &mut payload);
        r.memory_size = (64 + payload.len()) as u16;
        r.offset_next = r.memory_size;
        out.extend_from_slice(&r.to_bytes());
        out.extend_from_slice(&payload);
    }
    out
}

impl Scenario for Truncate {
    fn property(&self) -> &'static str {
        "C18"
    }
    fn level(&self) -> &'static str {
        "fault_enumeration"
    }
    fn n_cases(&self, tier: Tier) -> u64 {
        match tier {
            Tier::Quick => 160,
            Tier::Thorough => 4_000,
        }
    }
    fn rule(&self) -> String {
        "case = (stream, command line, source) and a set of crash points = input ends after byte k. Streams are \
         conforming or corrupted multi-packet multi-link streams (1 in 8 each: payloads above 8 KiB, an exact batch \
         multiple of selected packets followed by skipped ones, header-only packets, an input several times the \
         reader's 50 KiB buffer). Small streams (<= 1.5 kB quick, <= 6 kB thorough): \
         EVERY k in 0..=len is enumerated; larger streams: every structural boundary (inside the first 8 bytes, \
         inside each RDH, at each RDH end, inside each payload, at each packet end, +-1 around them) plus seeded \
         positions. The cut is the seam answering EOF at byte k (pipe) or the file ending there (file). Modes: the \
         five check modes (findings compared) and view rdh / its-readout-frames (rows compared). Oracle: normal \
         termination, exit status in {0,1,N}; messages with offset below the start of the incomplete final packet \
         equal the untruncated run's messages for those packets (stave-mode frame messages only if the frame end \
         they quote is also before the cut); view rows are a prefix of the untruncated rows. Non-trivial: >= 2 \
         managed threads in the untruncated run; distinct: (input hash, trace hash); evaluations counts cases, \
         `executions` counts cut positions executed."
            .into()
    }
    fn make(&self, seed: u64, case: u64, tier: Tier) -> Trial {
        let mut rng = Rng::new(seed);
        // mixed radix: rows / small / mode vary independently of each other
        let rows_mode = case % 4 == 3;
        let mode_i = ((case / 8) % 5) as usize;
        let stave = !rows_mode && mode_i == 4;
        let mut cfg = GenCfg::swarm(&mut rng, stave);
        let small = (case / 4) % 2 == 0;
        if small {
            cfg.n_links = rng.range(1, 3) as usize;
            cfg.hbfs = (1, 2);
            cfg.data_pages = (1, 2);
            cfg.triggers = (1, 2);
            cfg.data_words = (0, 3);
            if stave {
                cfg.barrels = Some(vec![itsgen::gen::Barrel::Inner]);
                cfg.max_hits = 1;
            }
        } else {
            cfg.n_links = rng.range(1, 6) as usize;
        }
        let mut st = gen_conforming(&cfg, &mut rng);
        let mut label = if rng.chance(1, 2) {
            for _ in 0..rng.range(1, 3) {
                loop {
                    let mut probe = st.clone();
                    let f = corrupt::corrupt_stream(&mut probe, &mut rng);
                    if f != "size_inconsistent" {
                        st = probe;
                        break;
                    }
                }
            }
            "corrupted".to_string()
        } else {
            "conforming".to_string()
        };
        let mut input = st.bytes();
        if case % 9 == 8 {
            // the repository's sample files (small ones: every cut position is enumerated)
            if let Some((_, b)) = crate::corpus::pick(&mut rng, 30_000, true) {
                input = b;
                label = "sample files".to_string();
            }
        }
        // two special shapes, drawn independently of everything else
        let special = rng.below(8);
        let mut forced_filter: Option<Filter> = None;
        let mut extra_cuts: Vec<u64> = Vec::new();
        if special == 0 {
            // payloads beyond 8 KiB (legal up to 10000 bytes): a cut inside one that is being skipped
            let n = rng.range(2, 6) as usize;
            let base = gen_arbitrary(&mut rng, n, 64, 2);
            let big: Vec<usize> = (0..rng.range(1, 2)).map(|_| rng.usize_below(n)).collect();
            let mut sizes: Vec<usize> = Vec::new();
            for _ in 0..n {
                sizes.push(rng.range(8193, 10_000) as usize);
            }
            input = rebuild_stream(&base, &mut |i, _r, payload| {
                if big.contains(&i) {
                    payload.resize(sizes[i], 0xA5);
                }
            });
            let w = walk(&input);
            for p in &w.pkts {
                let (ps, pe) = (p.payload.start as u64, p.payload.end as u64);
                if pe - ps > 8192 {
                    for d in [1u64, 100, 500, 815, 816, 817, 1000, 1807, 1808, 1809] {
                        extra_cuts.push(ps + d);
                    }
                    for d in [1u64, 8191, 8192, 8193] {
                        extra_cuts.push(pe.saturating_sub(d));
                    }
                }
            }
            label = "payloads above 8 KiB".to_string();
        } else if special == 1 {
            // an exact multiple of the reader's batch size (100) of selected packets, then packets that the
            // filter skips: the cut falls while the current batch is still empty
            let n_a = *rng.pick(&[100usize, 200]);
            let k = rng.range(1, 3) as usize;
            let base = gen_arbitrary(&mut rng, n_a + k, 48, 1);
            let w0 = walk(&base);
            let a_link = w0.pkts.first().map(|p| p.rdh.link_id).unwrap_or(0);
            let b_link = a_link.wrapping_add(1 + rng.below(200) as u8);
            input = rebuild_stream(&base, &mut |i, r, payload| {
                if i >= n_a {
                    r.link_id = b_link;
                    if payload.len() < 16 {
                        payload.resize(40, 0x5A);
                    }
                }
            });
            forced_filter = Some(Filter::Link(a_link));
            let w = walk(&input);
            if let Some(first_b) = w.pkts.get(n_a) {
                extra_cuts.extend(first_b.off as u64..=input.len() as u64);
            }
            label = format!("{n_a} selected packets then skipped ones");
        } else if special == 2 {
            // small arbitrary-framed packets, header-only ones (offset-to-next 64) among them
            let n = rng.range(3, 10) as usize;
            let base = gen_arbitrary(&mut rng, n, 48, 2);
            let empty: Vec<bool> = (0..n).map(|_| rng.chance(1, 3)).collect();
            input = rebuild_stream(&base, &mut |i, _r, payload| {
                if empty[i] {
                    payload.clear();
                }
            });
            label = "small packets, header-only ones among them".to_string();
        } else if special == 3 {
            // an input several times the size of the reader's 50 KiB buffer, made of large packets: a cut inside a
            // payload that lies partly or wholly beyond what is buffered (skipped by seeking when the input is a file)
            let n = rng.range(12, 40) as usize;
            let base = gen_arbitrary(&mut rng, n, 64, 2);
            let sizes: Vec<usize> = (0..n).map(|_| rng.range(2000, 9500) as usize).collect();
            input = rebuild_stream(&base, &mut |i, _r, payload| payload.resize(sizes[i], 0x3C));
            let l = input.len() as u64;
            for _ in 0..120 {
                extra_cuts.push(rng.below(l + 1));
            }
            let w = walk(&input);
            for p in w.pkts.iter().rev().take(3) {
                let (ps, pe) = (p.payload.start as u64, p.payload.end as u64);
                let mut c = ps + 1;
                while c < pe {
                    extra_cuts.push(c);
                    c += 700;
                }
            }
            label = "input several times the read buffer".to_string();
        }
        let len = input.len() as u64;
        let full_enum_limit = match tier {
            Tier::Quick => 1500,
            Tier::Thorough => 6000,
        };
        let mut cuts: Vec<u64> = Vec::new();
        if len <= full_enum_limit {
            cuts.extend(0..=len);
            label.push_str(" every-byte");
        } else {
            cuts.extend(0..=9u64.min(len));
            // structural boundaries of the input as the independent walker sees them
            let wb = walk(&input);
            let stride = (wb.pkts.len() / 60).max(1);
            for p in wb.pkts.iter().step_by(stride) {
                let pos = p.off as u64;
                let plen = p.rdh.offset_next as u64;
                for c in [pos + 1, pos + 32, pos + 63, pos + 64, pos + 65, pos + 64 + (plen.max(64) - 64) / 2, pos + plen - 1, pos + plen] {
                    if c <= len {
                        cuts.push(c);
                    }
                }
            }
            let extra = match tier {
                Tier::Quick => 40,
                Tier::Thorough => 400,
            };
            for _ in 0..extra {
                cuts.push(rng.below(len + 1));
            }
            cuts.sort_unstable();
            cuts.dedup();
            // keep the quick tier bounded
            if tier == Tier::Quick && cuts.len() > 400 && extra_cuts.is_empty() {
                let mut keep = Vec::new();
                let stride = cuts.len() as f64 / 400.0;
                let mut x = 0.0;
                while (x as usize) < cuts.len() {
                    keep.push(cuts[x as usize]);
                    x += stride;
                }
                cuts = keep;
            }
            label.push_str(" boundaries");
        }
        cuts.extend(extra_cuts.iter().copied().filter(|c| *c <= len));
        cuts.sort_unstable();
        cuts.dedup();
        let arbitrary_payloads = special <= 3;
        let mut parts: Vec<String> = if rows_mode {
            let v = if arbitrary_payloads || rng.chance(1, 2) { VIEW_MODES[0] } else { VIEW_MODES[1] };
            label = format!("{} | {label}", v.join(" "));
            let mut p = s(v);
            p.push("-d".into());
            p
        } else {
            // (arbitrary payload bytes: the modes that do not interpret payloads)
            let m = if arbitrary_payloads { [0usize, 2][mode_i % 2] } else { mode_i };
            label = format!("{} | {label}", CHECK_MODES[m].join(" "));
            s(CHECK_MODES[m])
        };
        let mut allowed = vec![0, 1];
        if rng.chance(1, 3) {
            let n = rng.range(2, 255);
            parts.extend(s(&["-E", &n.to_string()]));
            allowed.push(n as i32);
        }
        if let Some(f) = forced_filter {
            parts.extend(f.args());
            label.push_str(" filter");
        } else if arbitrary_payloads {
            if rng.chance(2, 3) {
                parts.extend(filter_from_walk(&input, &mut rng).args());
                label.push_str(" filter");
            }
        } else if rng.chance(1, 3) && !st.links.is_empty() {
            // with a filter: the cut can fall inside a packet that is being skipped
            let l = &st.links[rng.usize_below(st.links.len())];
            let f = match rng.below(3) {
                0 => Filter::Link(l.link_id),
                1 => Filter::Fee(l.fee_id),
                _ => Filter::Stave(l.fee_id),
            };
            parts.extend(f.args());
            label.push_str(" filter");
        }
        let im = if special == 3 && rng.chance(2, 3) {
            InputMode::File
        } else if arbitrary_payloads && rng.chance(2, 3) {
            InputMode::Pipe
        } else {
            pick_input_mode(&mut rng)
        };
        label.push_str(if im == InputMode::File { " file" } else { " pipe" });
        // 1 in 6 of the checks: expectations about the whole run (custom checks file) that a truncated run cannot meet -
        // their messages carry no position and belong to no packet; the run must still end normally
        let run_expect = !rows_mode && rng.chance(1, 6);
        if run_expect {
            parts.extend(s(&["-c", "@CHECKS@"]));
            label.push_str(" run-expectations");
        }
        let mut full = specgen::spec(im, &parts, input);
        if run_expect {
            full.custom_checks_toml = Some(format!("cdps = {}\ntriggers_pht = {}\n", 1 + rng.below(300), 1 + rng.below(40)));
        }
        if rng.chance(1, 2) {
            swarm_schedule(&mut full, &mut rng, 300 + st.total_packets() as u64 * 12);
        }
        if rng.chance(1, 3) {
            benign_io(&mut full, &mut rng);
        }
        Trial::Truncate { full, cuts, allowed_status: allowed, rows_mode, label }
    }
}

// ------------------------------------------------------------------------------------------------
// shared: well-framed workloads and filters drawn from their content
// ------------------------------------------------------------------------------------------------

/// Packet counts that exercise the 100-packet batch boundaries.
fn packet_count(rng: &mut Rng, tier: Tier) -> usize {
    match rng.below(10) {
        0 => 0,
        1 => 1,
        2 => *rng.pick(&[99usize, 100, 101, 199, 200, 201, 300]),
        // (large streams are expensive: most between 1000 and 3000 packets, 1 in 8 up to 20000)
        3 if tier == Tier::Thorough => {
            if rng.chance(1, 8) {
                rng.range(3000, 20_000) as usize
            } else {
                rng.range(1000, 3000) as usize
            }
        }
        _ => rng.range(2, 260) as usize,
    }
}

/// A filter whose value is present in the walk (or, 1 in 5, absent).
fn filter_from_walk(input: &[u8], rng: &mut Rng) -> Filter {
    let w = walk(input);
    if w.pkts.is_empty() {
        return Filter::None;
    }
    let p = &w.pkts[rng.usize_below(w.pkts.len())];
    match rng.below(10) {
        0 | 1 => Filter::Link(p.rdh.link_id),
        2 | 3 => Filter::Fee(p.rdh.fee_id),
        4 | 5 => Filter::Stave(p.rdh.fee_id & 0b0111_0000_0011_1111),
        6 => Filter::Link(rng.below(256) as u8),
        7 => Filter::Fee(rng.next_u32() as u16),
        _ => Filter::None,
    }
}

// ------------------------------------------------------------------------------------------------
// C03
// ------------------------------------------------------------------------------------------------
pub struct Scan;

impl Scenario for Scan {
    fn property(&self) -> &'static str {
        "C03"
    }
    fn n_cases(&self, tier: Tier) -> u64 {
        match tier {
            Tier::Quick => 1_500,
            Tier::Thorough => 60_000,
        }
    }
    fn rule(&self) -> String {
        "case = well-framed stream with arbitrary header values (0, 1, 99/100/101/199/200/201/300 and 2..260 packets; \
         thorough up to 20000), payloads of 0..10000 arbitrary bytes or of 80-bit words laid out per the header's data \
         format (or one of the repository's well-framed sample files), 1..6 interleaved links, and a filter (link / FEE / layer-stave present in the stream, absent value, \
         or none; 1 in 40 streams of 120..350 jumbo packets of 8200..10000 payload bytes; 1 in 6 filtered cases with an ignored -o). Each case is run through 3-4 payload-handling paths: `view rdh -d` (payload skipped by seek from a \
         file, by read-discard from a pipe), `check sanity -S` (skipped), `check sanity its -S` (loaded) and, for \
         word payloads, `view its-readout-frames-data -d` (loaded); under seeded schedules, capped queues and benign \
         short reads / EINTR so that buffer refills and relative seeks cross buffer boundaries. Oracle: independent \
         chain walk: rows == matching walker packets in order with walker offsets and independently decoded fields; \
         word rows / unknown-ID lines at walker word offsets with the input's bytes; rdhs_seen, rdhs_filtered, \
         payload_size == walker counts; every error offset is a walker RDH or word offset. Non-trivial: >= 2 packets \
         and >= 3 threads; distinct: (input hash, trace hash)."
            .into()
    }
    fn make(&self, seed: u64, case: u64, tier: Tier) -> Trial {
        let mut rng = Rng::new(seed);
        // positions beyond 4 GiB: quick 1 case, thorough 1 in 5000
        let huge = match tier {
            Tier::Quick => case == 700,
            Tier::Thorough => case % 5000 == 700,
        };
        if huge {
            // sane RDHs (from a conforming stream) with payloads inflated to ~9.5 kB; `check sanity` and
            // `view rdh` skip the payloads; one RDH per delivery carries a sanity error, so errors lie on
            // both sides of the 4 GiB mark
            let mut cfg = GenCfg::swarm(&mut rng, false);
            cfg.n_links = rng.range(1, 3) as usize;
            cfg.hbfs = (3, 6);
            let st = gen_conforming(&cfg, &mut rng);
            let base = st.bytes();
            let npk = walk(&base).pkts.len().max(1);
            let bad = rng.usize_below(npk);
            let sizes: Vec<usize> = (0..npk).map(|_| rng.range(9000, 10_000) as usize).collect();
            let input = rebuild_stream(&base, &mut |i, r, payload| {
                payload.resize(sizes[i], 0x00);
                if i == bad {
                    r.bc = 0xdec;
                }
            });
            let rep = (1u64 << 32) / input.len() as u64 + rng.range(2, 30);
            let packets = npk as u64 * rep;
            let mut specs = Vec::new();
            for parts in [s(&["view", "rdh", "-d"]), s(&["check", "sanity"])] {
                let mut sp = specgen::spec(InputMode::Pipe, &parts, input.clone());
                sp.input_repeat = Some(rep);
                sp.step_budget = 20_000_000 + packets * 12;
                sp.expected_steps = packets * 3;
                sp.timeout_ms = 600_000;
                specs.push(sp);
            }
            return Trial::Scan { specs, label: "stream beyond 4 GiB | no filter".into() };
        }
        let n = packet_count(&mut rng, tier);
        let words = case % 2 == 0;
        let nl = rng.range(1, 6) as usize;
        let mut input = if words {
            let mw = *rng.pick(&[0usize, 3, 20, 200, 900]);
            gen_framed_words(&mut rng, n, mw, nl, 100, false)
        } else {
            let mp = *rng.pick(&[0usize, 64, 1000, 10_000]);
            gen_arbitrary(&mut rng, n, mp, nl)
        };
        let mut from_corpus = false;
        if case % 12 == 10 {
            // the repository's well-framed sample files (word payloads laid out per the data format)
            if let Some((_, b)) = crate::corpus::pick(&mut rng, 300_000, true) {
                input = b;
                from_corpus = true;
            }
        }
        // 1 in 40 of the arbitrary-payload cases: jumbo packets only (8200..10000 payload bytes each, 120..350 of
        // them): whole batches of 100 packets of more than 800 KiB
        let jumbo = !words && !from_corpus && rng.chance(1, 40);
        if jumbo {
            let npk = rng.range(120, 350) as usize;
            let base = gen_arbitrary(&mut rng, npk, 64, nl);
            let sizes: Vec<usize> = (0..npk).map(|_| rng.range(8200, 10_000) as usize).collect();
            let mut fill = rng.fork(7);
            input = rebuild_stream(&base, &mut |i, _, payload| {
                payload.resize(sizes[i], 0);
                fill.fill(payload);
            });
        }
        let f = filter_from_walk(&input, &mut rng);
        // 1 in 6 of the filtered cases: an output destination next to the view / check (accepted with a warning
        // and ignored: in particular no second consumer of the reader's batches)
        let ignored_o = f != Filter::None && rng.chance(1, 6);
        let mut specs = Vec::new();
        let mut add = |parts: &[&str], im: InputMode, rng: &mut Rng| {
            let mut p = if ignored_o {
                let mut pre = s(&["-o", "@OUT@"]);
                pre.extend(f.args());
                pre.extend(s(parts));
                pre
            } else {
                let mut p = s(parts);
                p.extend(f.args());
                p
            };
            let _ = &mut p;
            let mut sp = specgen::spec(im, &p, input.clone());
            if rng.chance(3, 4) {
                swarm_schedule(&mut sp, rng, 300 + n as u64 * 4);
            }
            if rng.chance(2, 3) {
                benign_io(&mut sp, rng);
            }
            specs.push(sp);
        };
        add(&["view", "rdh", "-d"], InputMode::File, &mut rng);
        add(&["view", "rdh", "-d"], InputMode::Pipe, &mut rng);
        let im = pick_input_mode(&mut rng);
        if rng.chance(1, 2) {
            add(&["check", "sanity", "-S", "@STATS@", "-D", "json"], im, &mut rng);
        } else {
            add(&["check", "sanity", "its", "-S", "@STATS@", "-D", "json"], im, &mut rng);
        }
        if words {
            let im = pick_input_mode(&mut rng);
            add(&["view", "its-readout-frames-data", "-d"], im, &mut rng);
        }
        let label = format!(
            "{}{} | {}",
            if from_corpus {
                "word payloads (sample files)"
            } else if words {
                "word payloads"
            } else if jumbo {
                "jumbo payloads"
            } else {
                "arbitrary payloads"
            },
            if ignored_o { " +ignored -o" } else { "" },
            match f {
                Filter::None => "no filter",
                Filter::Link(_) => "link filter",
                Filter::Fee(_) => "fee filter",
                Filter::Stave(_) => "stave filter",
            }
        );
        Trial::Scan { specs, label }
    }
}

// ------------------------------------------------------------------------------------------------
// C08
// ------------------------------------------------------------------------------------------------
pub struct FilterWrite;

impl Scenario for FilterWrite {
    fn property(&self) -> &'static str {
        "C08"
    }
    fn n_cases(&self, tier: Tier) -> u64 {
        match tier {
            Tier::Quick => 1_200,
            Tier::Thorough => 50_000,
        }
    }
    fn rule(&self) -> String {
        "case = well-framed stream (arbitrary headers and payload sizes, packet counts incl. 0, 1 and the batch \
         multiples, 1..6 interleaved links; 1 in 12 a sample file of the repository) x one filter kind (link / FEE / \
         layer-stave) x destination (file / stdout) x source (file / pipe); in a third of the cases the destination \
         and statistics files already exist with unrelated content (stored state of an earlier run); 1 in 8 with a custom \
         expectation about the run that fails at its end, 1 in 16 into a file whose name is the word `stdout`. The filter is run for EVERY distinct value of that kind present in the stream plus \
         one absent value, under seeded schedules, capped reader->writer queue and benign short reads / short writes \
         / EINTR. Oracle: output bytes == concatenation in input order of the walker's matching packets; outputs over \
         all distinct values total the input size (partition); each output walks cleanly; filtering an output again \
         reproduces it; `rdhs_filtered` == walker count; exit 0. Non-trivial: >= 2 packets and >= 3 threads."
            .into()
    }
    fn make(&self, seed: u64, case: u64, tier: Tier) -> Trial {
        let mut rng = Rng::new(seed);
        // more selected packets in one run than the writer buffers before it flushes (1024 * 1024): quick 1
        // case, thorough 1 in 5000
        let huge = match tier {
            Tier::Quick => case == 600,
            Tier::Thorough => case % 5000 == 600,
        };
        if huge {
            let input = gen_arbitrary(&mut rng, 100, 16, 2);
            let w = walk(&input);
            let link = w.pkts[rng.usize_below(w.pkts.len())].rdh.link_id;
            let m = w.pkts.iter().filter(|p| p.rdh.link_id == link).count().max(1) as u64;
            let rep = (1024 * 1024 + rng.range(200, 60_000)) / m + 1;
            let to_file = rng.chance(1, 2);
            let mut base = specgen::spec(InputMode::Pipe, &[], input);
            base.input_repeat = Some(rep);
            let packets = 100 * rep;
            base.step_budget = 20_000_000 + packets * 12;
            base.expected_steps = packets * 3;
            base.timeout_ms = 600_000;
            return Trial::FilterWrite {
                base,
                filters: vec![Filter::Link(link).args()],
                to_file,
                label: format!("link | {} | from pipe | beyond the writer's buffer", if to_file { "to file" } else { "to stdout" }),
            };
        }
        // a few selected packets and a run of 12 000 .. 20 000 packets of another link behind (or in front of) them:
        // quick one case, thorough 1 in 5000
        let long_skip = match tier {
            Tier::Quick => case == 601,
            Tier::Thorough => case % 5000 == 601,
        };
        if long_skip {
            let n_few = rng.range(3, 9) as usize;
            let n_many = rng.range(12_000, 20_000) as usize;
            let few = gen_arbitrary(&mut rng, n_few, 64, 1);
            let many = gen_arbitrary(&mut rng, n_many, 0, 1);
            let a = walk(&few).pkts.first().map(|p| p.rdh.link_id).unwrap_or(1);
            let b = a.wrapping_add(1 + rng.below(200) as u8);
            let many = rebuild_stream(&many, &mut |_, r, payload| {
                r.link_id = b;
                payload.truncate(16);
            });
            let mut input = Vec::new();
            if rng.chance(1, 2) {
                input.extend_from_slice(&few);
                input.extend_from_slice(&many);
            } else {
                // (the first packet of the stream decides what the input is taken for: keep a sane one in front)
                input.extend_from_slice(&few);
                input.extend_from_slice(&many);
                input.extend_from_slice(&few);
            }
            let to_file = rng.chance(1, 2);
            let mut base = specgen::spec(pick_input_mode(&mut rng), &[], input);
            base.step_budget = 5_000_000;
            base.timeout_ms = 300_000;
            return Trial::FilterWrite {
                base,
                filters: vec![Filter::Link(a).args()],
                to_file,
                label: format!("link | {} | a run of more than 12000 skipped packets", if to_file { "to file" } else { "to stdout" }),
            };
        }
        let n = packet_count(&mut rng, tier).min(2000);
        let nl = rng.range(1, 6) as usize;
        let mp = *rng.pick(&[0usize, 64, 1000, 10_000]);
        let mut input = gen_arbitrary(&mut rng, n, mp, nl);
        if case % 12 == 11 {
            // the repository's well-framed sample files
            if let Some((_, b)) = crate::corpus::pick(&mut rng, 300_000, true) {
                input = b;
            }
        }
        let w = walk(&input);
        let kind = rng.below(3);
        let mut values: Vec<Filter> = Vec::new();
        for p in &w.pkts {
            let f = match kind {
                0 => Filter::Link(p.rdh.link_id),
                1 => Filter::Fee(p.rdh.fee_id),
                _ => Filter::Stave(p.rdh.fee_id & 0b0111_0000_0011_1111),
            };
            if !values.contains(&f) {
                values.push(f);
            }
        }
        let complete = values.len() <= 12;
        values.truncate(12);
        // one absent value
        let absent = loop {
            let f = match kind {
                0 => Filter::Link(rng.below(256) as u8),
                1 => Filter::Fee(rng.next_u32() as u16),
                _ => Filter::Stave(itsgen::rdh::fee_id(rng.below(8) as u8, rng.below(64) as u8, 0)),
            };
            if !values.contains(&f) {
                break f;
            }
        };
        values.push(absent);
        let filters: Vec<Vec<String>> = values.iter().map(|f| f.args()).collect();
        let to_file = rng.chance(1, 2);
        let im = pick_input_mode(&mut rng);
        let n_pkts = w.pkts.len();
        let mut base = specgen::spec(im.clone(), &[], input);
        if rng.chance(1, 3) {
            // the destination file exists already (left by an earlier run with another filter)
            base.stale_outputs = Some(rng.next_u64());
        }
        // 1 in 8: an expectation about the whole run (custom checks file) that does not hold - an error is
        // counted and reported at the end of the run, the filtered bytes stay what they are
        let custom_fail = rng.chance(1, 8);
        if custom_fail {
            base.argv.extend(s(&["-c", "@CHECKS@"]));
            base.custom_checks_toml = Some(format!("cdps = {}\n", n_pkts + 1 + rng.usize_below(3)));
        }
        // 1 in 8 of the file destinations: the file's name is the word `stdout` (in a directory)
        let named_stdout = to_file && rng.chance(1, 8);
        if rng.chance(3, 4) {
            swarm_schedule(&mut base, &mut rng, 300 + n as u64 * 3);
        }
        if rng.chance(2, 3) {
            benign_io(&mut base, &mut rng);
        }
        let label = format!(
            "{} | {} | {}{}{}",
            ["link", "fee", "stave"][kind as usize],
            if named_stdout {
                "to file named stdout"
            } else if to_file {
                "to file"
            } else {
                "to stdout"
            },
            if im == InputMode::File { "from file" } else { "from pipe" },
            if custom_fail { " | run expectation fails" } else { "" },
            if complete { " | partition" } else { "" }
        );
        Trial::FilterWrite { base, filters, to_file, label }
    }
}

// ------------------------------------------------------------------------------------------------
// C14
// ------------------------------------------------------------------------------------------------
pub struct StatsTruth;

impl Scenario for StatsTruth {
    fn property(&self) -> &'static str {
        "C14"
    }
    fn n_cases(&self, tier: Tier) -> u64 {
        match tier {
            Tier::Quick => 4_000,
            Tier::Thorough => 200_000,
        }
    }
    fn rule(&self) -> String {
        "case = well-framed stream (arbitrary header values / word payloads / conforming multi-link streams; counts up \
         to beyond a batch, payload totals beyond 2^16) x mode (five checks, three views, filtered writing to a file) \
         x filter (present / absent / none) x statistics format (JSON / TOML) x {file, pipe} x seeded schedule x \
         capped queues x benign I/O faults. Oracle: values computed by the independent chain walk: RDHs visited, RDHs \
         matching the filter, payload bytes, sorted links, FEE IDs in first-seen order, run trigger type, RDH version, \
         data format, system ID; in check and view modes heartbeat frames, layer/stave pairs and all 20 per-bit \
         trigger counts over analysed packets; total_errors == number of messages, unique codes == codes in the \
         messages (1 in 6 check runs with end-of-run expectations from a custom checks file, whose messages count too); report rows Total RDHs / Total HBFs / Total Errors agree with the file; the FEE IDs the report lists plus its `... K more` are all FEE IDs (1 in 25 streams has 50-350 of them). Non-trivial: >= 2 packets \
         and >= 3 threads."
            .into()
    }
    fn make(&self, seed: u64, case: u64, tier: Tier) -> Trial {
        let mut rng = Rng::new(seed);
        // streams beyond 4 GiB of payload (counters wider than 32 bits): quick 2 cases, thorough 1 in 4000
        let huge = match tier {
            Tier::Quick => case == 1000 || case == 3000,
            Tier::Thorough => case % 4000 == 1000,
        };
        if huge {
            let n = rng.range(20, 60) as usize;
            let nl = rng.range(1, 3) as usize;
            let base = gen_arbitrary(&mut rng, n, 64, nl);
            // every payload 9000..10000 bytes; sane, ITS, constant version: no fatal, no init failure
            let sizes: Vec<usize> = (0..n).map(|_| rng.range(9000, 10_000) as usize).collect();
            let input = rebuild_stream(&base, &mut |i, r, payload| {
                payload.resize(sizes[i], 0x11);
                r.header_size = 0x40;
                r.system_id = 0x20;
                r.priority = 0;
                r.rdh0_reserved = 0;
            });
            let w = walk(&input);
            let v0 = w.pkts.first().map(|p| p.rdh.version).unwrap_or(7);
            let input = rebuild_stream(&input, &mut |_, r, _| r.version = v0);
            let per: u64 = walk(&input).pkts.iter().map(|p| (p.rdh.memory_size - 64) as u64).sum();
            // just beyond 2^32, or well beyond
            let rep = (1u64 << 32) / per.max(1) + if rng.chance(1, 2) { 1 } else { rng.range(2, 40) };
            let mode = if rng.chance(1, 2) { CHECK_MODES[0] } else { CHECK_MODES[2] };
            let mut parts = s(mode);
            parts.extend(s(&["-m", "-S", "@STATS@", "-D", "json"]));
            let mut spec = specgen::spec(InputMode::Pipe, &parts, input);
            spec.input_repeat = Some(rep);
            spec.stats_ext = "json".into();
            let packets = n as u64 * rep;
            spec.step_budget = 20_000_000 + packets * 12;
            spec.expected_steps = packets * 3;
            spec.timeout_ms = 600_000;
            return Trial::StatsTruth { spec, analysed: true, label: format!("{} | stream beyond 4 GiB", mode.join(" ")) };
        }
        let n = packet_count(&mut rng, tier).min(3000);
        // (1 in 25: dozens to hundreds of FEE IDs - more than the report lists)
        let nl = if rng.chance(1, 25) { rng.range(50, 350) as usize } else { rng.range(1, 6) as usize };
        let n = if nl >= 50 { n.max(nl * 2) } else { n };
        let corpus_pick = if case % 10 == 9 { crate::corpus::pick(&mut rng, 300_000, true) } else { None };
        let from_corpus = corpus_pick.is_some();
        let mut stave_errors = false;
        let src = if corpus_pick.is_some() { 1 } else { case % 3 };
        let input = match src {
            _ if corpus_pick.is_some() => corpus_pick.unwrap().1,
            0 => {
                let mp = *rng.pick(&[0usize, 64, 1000, 10_000]);
                // sane first-packet values on every packet keep the stream free of documented fatals
                let b = gen_arbitrary(&mut rng, n, mp, nl);
                // 1 in 20: header-only packets - on one link, or everywhere
                if rng.chance(1, 20) {
                    let w0 = walk(&b);
                    let everywhere = rng.chance(1, 2);
                    let link = w0.pkts.first().map(|p| p.rdh.link_id).unwrap_or(0);
                    rebuild_stream(&b, &mut |_, r, payload| {
                        if everywhere || r.link_id == link {
                            payload.clear();
                        }
                    })
                } else {
                    b
                }
            }
            1 => {
                let mw = *rng.pick(&[3usize, 20, 200]);
                let sane = rng.chance(1, 2);
                gen_framed_words(&mut rng, n, mw, nl, 50, sane)
            }
            _ => {
                // a third in stave mode with corruption: ALPIDE frame errors, whose sub-codes ([E9003]..)
                // only appear on the continuation lines of the message
                stave_errors = rng.chance(1, 3);
                let cfg = GenCfg::swarm(&mut rng, stave_errors);
                let mut st = gen_conforming(&cfg, &mut rng);
                if stave_errors {
                    // (the stream stays well-framed and recognisable: same first RDH0, sizes consistent)
                    let first8 = st.bytes()[..8.min(st.bytes().len())].to_vec();
                    for _ in 0..rng.range(1, 4) {
                        for _attempt in 0..20 {
                            let mut probe = st.clone();
                            let f = corrupt::corrupt_stream(&mut probe, &mut rng);
                            let b = probe.bytes();
                            if f != "excess_padding" && crate::corpus::well_framed(&b) && b.starts_with(&first8) {
                                st = probe;
                                break;
                            }
                        }
                    }
                }
                st.bytes()
            }
        };
        // 1 in 12 of the generated word-free / framed-word streams (own generator: all other cases stay what they were):
        // every packet of one link that does not open the stream carries the FEE ID 0xFFFF (all bits set - the value a
        // careless "none yet" marker has), and in 2 of 3 a filter makes those packets the first ones analysed
        let mut fr = Rng::new(seed ^ 0xFEE1_FFFF_0000_0014);
        let mut forced_filter: Option<Filter> = None;
        let mut input = input;
        if !from_corpus && src != 2 && !stave_errors && fr.chance(1, 12) {
            let w0 = walk(&input);
            let first_link = w0.pkts.first().map(|p| p.rdh.link_id);
            let mut others: Vec<u8> = w0.pkts.iter().map(|p| p.rdh.link_id).filter(|l| Some(*l) != first_link).collect();
            others.sort_unstable();
            others.dedup();
            if !others.is_empty() {
                let l = *fr.pick(&others);
                input = rebuild_stream(&input, &mut |_, r, _| {
                    if r.link_id == l {
                        r.fee_id = 0xFFFF;
                    }
                });
                if fr.chance(2, 3) {
                    forced_filter = Some(if fr.chance(1, 2) { Filter::Fee(0xFFFF) } else { Filter::Link(l) });
                }
            }
        }
        let f = filter_from_walk(&input, &mut rng);
        let f = forced_filter.unwrap_or(f);
        let ext = if rng.chance(1, 2) { "json" } else { "toml" };
        let mut parts: Vec<String>;
        let analysed;
        let label;
        match rng.below(10) {
            0..=5 => {
                // excess padding is a fatal for the views and a payload error for its checks; word-level
                // checks on arbitrary payloads are fine (errors are counted, not judged)
                let m = if src == 0 { rng.usize_below(3) * 2 % 5 } else { rng.usize_below(4) };
                let m = if src == 0 { [0usize, 2][m % 2] } else { m };
                let m = if stave_errors { 4 } else { m };
                parts = s(CHECK_MODES[m]);
                analysed = true;
                label = format!("{} | {ext}", CHECK_MODES[m].join(" "));
            }
            6..=7 => {
                let v = if src == 0 { VIEW_MODES[0] } else { VIEW_MODES[rng.usize_below(3)] };
                parts = s(v);
                parts.push("-d".into());
                analysed = true;
                label = format!("{} | {ext}", v.join(" "));
            }
            _ => {
                let f2 = if f == Filter::None {
                    let w = walk(&input);
                    match w.pkts.first() {
                        Some(p) => Filter::Link(p.rdh.link_id),
                        None => Filter::Link(0),
                    }
                } else {
                    f
                };
                parts = f2.args();
                parts.extend(s(&["-o", "@OUT@"]));
                analysed = false;
                label = format!("write file | {ext}");
            }
        }
        if analysed {
            parts.extend(f.args());
        }
        parts.extend(s(&["-S", "@STATS@", "-D", ext]));
        if rng.chance(1, 4) {
            parts.push("-m".into());
        }
        // 1 in 6 of the check runs: expectations about the whole run (packet count, physics triggers) that hold or
        // not - their messages ([E9001], [E9002]) are produced after the last packet and count like any other
        let run_expect = analysed && parts[0] == "check" && rng.chance(1, 6);
        let mut toml = String::new();
        if run_expect {
            parts.extend(s(&["-c", "@CHECKS@"]));
            let n_seen = walk(&input).pkts.len() as u64;
            if rng.chance(2, 3) {
                toml.push_str(&format!("cdps = {}\n", if rng.chance(1, 3) { n_seen } else { n_seen + 1 + rng.below(5) }));
            }
            if toml.is_empty() || rng.chance(1, 2) {
                toml.push_str(&format!("triggers_pht = {}\n", rng.below(4)));
            }
        }
        let im = pick_input_mode(&mut rng);
        let mut spec = specgen::spec(im, &parts, input);
        spec.stats_ext = ext.to_string();
        if run_expect {
            spec.custom_checks_toml = Some(toml);
        }
        if rng.chance(1, 4) {
            spec.stale_outputs = Some(rng.next_u64());
        }
        if rng.chance(3, 4) {
            swarm_schedule(&mut spec, &mut rng, 300 + n as u64 * 6);
        }
        if rng.chance(1, 2) {
            benign_io(&mut spec, &mut rng);
        }
        let label = if from_corpus { format!("{label} | sample files") } else { label };
        let label = if run_expect { format!("{label} | run expectations") } else { label };
        Trial::StatsTruth { spec, analysed, label }
    }
}

// ------------------------------------------------------------------------------------------------
// C16
// ------------------------------------------------------------------------------------------------
pub struct ExitContract;

impl Scenario for ExitContract {
    fn property(&self) -> &'static str {
        "C16"
    }
    fn n_cases(&self, tier: Tier) -> u64 {
        match tier {
            Tier::Quick => 1_500,
            Tier::Thorough => 60_000,
        }
    }
    fn rule(&self) -> String {
        "case = input class (clean conforming | k errors from 1..8 framing-preserving corruption faults | mid-stream \
         fatal framing error at a random packet | non-ALICE bytes | missing file | empty input) x check mode x \
         -E n (n in 1..255, or absent) x statistics file; the reference run has no display option, then the same \
         input is run with -m, with -w <code list> (codes taken from the messages seen, prefixes of other codes such \
         as 4/44/440, 9/99/991, 1/10, and absent codes), with -e N for N around the true count, and with -w and -e \
         together (single-batch inputs: exactly the first N messages carrying a listed code); every run under \
         its own seeded schedule (after a fatal, which errors were counted races with the validators). 1 case in 8 is \
         a statistics-mismatch case (clean input, stored statistic perturbed, with and without -m: exit status must be the -E value) and 1 in 8 an invalid option combination (check sanity its-stave, -p without stave filter / with a non-stave target, \
         -E 0, -o without filter, -S without -D, input-stats file with a wrong extension / missing), passed through \
         the real clap parser and validate_args. Oracle: documented exit-status table; Total Errors (report) == \
         total_errors (file) == messages shown without display option; -m shows nothing and changes nothing else; \
         -w shows exactly the messages carrying a listed code; -e N shows at most N; rejected command lines: non-zero \
         status, empty stdout, no output or statistics file."
            .into()
    }
    fn make(&self, seed: u64, case: u64, _tier: Tier) -> Trial {
        let mut rng = Rng::new(seed);
        if case % 8 == 7 {
            return make_rejected(&mut rng);
        }
        if case % 8 == 6 {
            // "N when ... a statistics mismatch was reported", also when muted: a clean input whose only
            // finding is the drift of a stored statistic (round trip + perturbed leaves, as in C15)
            let mode_i = rng.usize_below(5);
            let cfg = GenCfg::swarm(&mut rng, mode_i == 4);
            let st = gen_conforming(&cfg, &mut rng);
            let ext = if rng.chance(1, 2) { "json" } else { "toml" };
            let exit_code = rng.range(2, 255) as i32;
            let mut parts = s(CHECK_MODES[mode_i]);
            parts.extend(s(&["-E", &exit_code.to_string()]));
            let muted = rng.chance(2, 3);
            if muted {
                parts.push("-m".into());
            }
            let im = pick_input_mode(&mut rng);
            let mut pa = parts.clone();
            pa.extend(s(&["-S", "@STATS@", "-D", ext]));
            let mut a = specgen::spec(im.clone(), &pa, st.bytes());
            a.stats_ext = ext.to_string();
            let mut pb = parts.clone();
            pb.extend(s(&["-i", "@INSTATS@"]));
            let mut b = specgen::spec(im, &pb, st.bytes());
            b.stats_ext = ext.to_string();
            swarm_schedule(&mut b, &mut rng, 300 + st.total_packets() as u64 * 12);
            return Trial::StatsRt {
                a,
                b,
                exit_code,
                enumerate_leaves: false,
                label: format!("stats-mismatch | {}{}", CHECK_MODES[mode_i].join(" "), if muted { " -m" } else { "" }),
            };
        }
        let class_i = case % 7;
        let mode_i = rng.usize_below(5);
        let stave = mode_i == 4;
        let mut cfg = GenCfg::swarm(&mut rng, stave);
        cfg.n_links = rng.range(1, 6) as usize;
        let mut st = gen_conforming(&cfg, &mut rng);
        let class;
        let mut input;
        let mut missing = false;
        let mut checks_toml: Option<String> = None;
        match class_i {
            0 => {
                class = "clean";
                input = st.bytes();
            }
            1 => {
                // clean data whose only finding is a failed user-configured count: the messages [E9001] /
                // [E9002] come from the statistics side, not from a validator
                class = if rng.chance(1, 2) { "errors" } else { "clean" };
                input = st.bytes();
                if class == "errors" {
                    let n = st.total_packets() as u64;
                    checks_toml = Some(match rng.below(3) {
                        0 => format!("cdps = {}\n", n + 1 + rng.below(5)),
                        1 => format!("cdps = {}\n", n.saturating_sub(1 + rng.below(3))),
                        _ => format!("cdps = {}\ntriggers_pht = {}\n", n + 1, 100_000 + rng.below(1000)),
                    });
                }
            }
            2 | 3 => {
                class = "errors";
                for _ in 0..rng.range(1, 8) {
                    loop {
                        let mut probe = st.clone();
                        let f = corrupt::corrupt_stream(&mut probe, &mut rng);
                        if f != "size_inconsistent" {
                            st = probe;
                            break;
                        }
                    }
                }
                input = st.bytes();
                // 1 in 4: on top of the errors in the data, expectations about the whole run that fail at its end
                // (two more messages behind the data errors: caps and code filters apply to all of them together)
                if rng.chance(1, 4) {
                    checks_toml = Some("cdps = 100000\ntriggers_pht = 100000\n".to_string());
                }
            }
            4 => {
                class = "fatal-midstream";
                for _ in 0..rng.below(3) {
                    loop {
                        let mut probe = st.clone();
                        let f = corrupt::corrupt_stream(&mut probe, &mut rng);
                        if f != "size_inconsistent" {
                            st = probe;
                            break;
                        }
                    }
                }
                if st.order.len() > 1 {
                    let j = 1 + rng.usize_below(st.order.len() - 1);
                    st.packet_mut(j).rdh.offset_next = *rng.pick(&[0u16, 1, 63, 10065, 20000, 0xFFFF]);
                }
                input = st.bytes();
            }
            5 => {
                class = "non-alice";
                input = vec![0u8; rng.range(8, 4000) as usize];
                rng.fill(&mut input);
                // make sure the first 8 bytes are not a sane RDH0
                match rng.below(3) {
                    0 => input[0] = *rng.pick(&[0u8, 1, 2, 101, 200, 255]),
                    1 => input[1] = *rng.pick(&[0u8, 0x3F, 0x41, 0xFF]),
                    _ => input[4] = 1 + rng.below(255) as u8,
                }
                if input[0] >= 3 && input[0] <= 100 && input[1] == 0x40 && input[4] == 0 {
                    input[1] = 0x41;
                }
            }
            _ => {
                if rng.chance(1, 2) {
                    class = "empty";
                    input = Vec::new();
                } else {
                    class = "missing-file";
                    input = st.bytes();
                    missing = true;
                }
            }
        }
        let exit_code = if rng.chance(2, 3) { Some(rng.range(1, 255) as i32) } else { None };
        let mut parts: Vec<String> = s(CHECK_MODES[mode_i]);
        if let Some(n) = exit_code {
            parts.extend(s(&["-E", &n.to_string()]));
        }
        if checks_toml.is_some() {
            parts.extend(s(&["-c", "@CHECKS@"]));
        }
        let ext = if rng.chance(1, 2) { "json" } else { "toml" };
        parts.extend(s(&["-S", "@STATS@", "-D", ext]));
        let im = if missing { InputMode::File } else { pick_input_mode(&mut rng) };
        let mk = |extra: &[String], rng: &mut Rng| -> ExecSpec {
            let mut p = parts.clone();
            p.extend(extra.iter().cloned());
            let mut sp = specgen::spec(im.clone(), &p, input.clone());
            sp.custom_checks_toml = checks_toml.clone();
            if missing {
                sp.argv[0] = "@IN@.does-not-exist".to_string();
            }
            sp.stats_ext = ext.to_string();
            if rng.chance(4, 5) {
                swarm_schedule(&mut sp, rng, 300 + st.total_packets() as u64 * 12);
            }
            sp
        };
        let mut specs = vec![mk(&[], &mut rng)];
        let mut kinds = vec!["plain".to_string()];
        specs.push(mk(&s(&["-m"]), &mut rng));
        kinds.push("mute".into());
        // code lists: prefixes of other codes, absent codes
        let lists: Vec<&str> = if checks_toml.is_some() {
            vec!["9001", "9002", "9001 9002", "900", "10 900 9001", "9", "99", "90"]
        } else {
            // (among them lists in which a code comes before a longer code it is a prefix of)
            vec![
                "4", "44", "440 441 442", "9", "99", "991 992", "1", "10", "11", "10 11", "70 71 72 73", "30 40 50 60", "100", "7", "74 75",
                "10 100 101", "11 110 111", "44 440 441 442 443 444 445", "70 701", "99 991 992", "4 44 440", "1 10 11 110",
            ]
        };
        for _ in 0..2 {
            let l = *rng.pick(&lists);
            let mut a = vec!["-w".to_string()];
            a.extend(l.split_whitespace().map(|x| x.to_string()));
            specs.push(mk(&a, &mut rng));
            kinds.push(format!("codes:{l}"));
        }
        let cap = rng.range(1, 12);
        specs.push(mk(&s(&["-e", &cap.to_string()]), &mut rng));
        kinds.push(format!("cap:{cap}"));
        // the statistics go to stdout instead of a file: what is shown on stderr stays what it is
        if !missing && matches!(class, "clean" | "errors") {
            let mut p: Vec<String> = Vec::new();
            let mut skip = 0;
            for a in parts.iter() {
                if skip > 0 {
                    skip -= 1;
                    continue;
                }
                if a == "-S" {
                    p.extend(s(&["-S", "stdout"]));
                    skip = 1;
                    continue;
                }
                p.push(a.clone());
            }
            let mut sp = specgen::spec(im.clone(), &p, input.clone());
            sp.custom_checks_toml = checks_toml.clone();
            sp.stats_ext = ext.to_string();
            if rng.chance(4, 5) {
                swarm_schedule(&mut sp, &mut rng, 300 + st.total_packets() as u64 * 12);
            }
            specs.push(sp);
            kinds.push("stats-to-stdout".to_string());
        }
        // the check once more behind an output destination that is accepted and ignored, with the filter it requires
        if !missing && matches!(class, "clean" | "errors") && !st.links.is_empty() {
            let l = &st.links[rng.usize_below(st.links.len())];
            let f = if stave { Filter::Stave(l.fee_id) } else { Filter::Link(l.link_id) };
            let mut p = s(&["-o", if rng.chance(1, 2) { "stdout" } else { "@OUT@" }]);
            p.extend(f.args());
            p.extend(parts.iter().cloned());
            let mut sp = specgen::spec(im.clone(), &p, input.clone());
            sp.custom_checks_toml = checks_toml.clone();
            sp.stats_ext = ext.to_string();
            if rng.chance(4, 5) {
                swarm_schedule(&mut sp, &mut rng, 300 + st.total_packets() as u64 * 12);
            }
            specs.push(sp);
            kinds.push("ignored-output-option".to_string());
        }
        // error-code filter and cap together
        {
            let l = *rng.pick(&lists);
            let cap2 = rng.range(1, 6);
            let mut a = vec!["-e".to_string(), cap2.to_string(), "-w".to_string()];
            a.extend(l.split_whitespace().map(|x| x.to_string()));
            specs.push(mk(&a, &mut rng));
            kinds.push(format!("codes+cap:{l}:{cap2}"));
        }
        if checks_toml.is_some() {
            // a failed user-configured count is found whatever the mode: through a view and through filtered
            // writing the status must be N as well
            let mut other = |mode_parts: Vec<String>, rng: &mut Rng| {
                let mut p = mode_parts;
                if let Some(n) = exit_code {
                    p.extend(s(&["-E", &n.to_string()]));
                }
                p.extend(s(&["-c", "@CHECKS@"]));
                let mut sp = specgen::spec(im.clone(), &p, input.clone());
                sp.custom_checks_toml = checks_toml.clone();
                if rng.chance(4, 5) {
                    swarm_schedule(&mut sp, rng, 300 + st.total_packets() as u64 * 12);
                }
                specs.push(sp);
                kinds.push("other-mode-custom".to_string());
            };
            let mut v = s(VIEW_MODES[rng.usize_below(3)]);
            if rng.chance(1, 2) {
                v.push("-d".into());
            }
            other(v, &mut rng);
            let wr = Filter::Link(st.links[rng.usize_below(st.links.len())].link_id).args();
            other(wr, &mut rng);
        }
        if class == "fatal-midstream" {
            // the exit-status rule is not a matter of the check modes: the same input through a view and
            // through filtered writing (stdout / file) must also end with N when the fatal is reported
            let mut other = |mode_parts: Vec<String>, rng: &mut Rng| {
                let mut p = mode_parts;
                if let Some(n) = exit_code {
                    p.extend(s(&["-E", &n.to_string()]));
                }
                let mut sp = specgen::spec(im.clone(), &p, input.clone());
                if rng.chance(4, 5) {
                    swarm_schedule(&mut sp, rng, 300 + st.total_packets() as u64 * 12);
                }
                specs.push(sp);
                kinds.push("other-mode".to_string());
            };
            let mut v = s(VIEW_MODES[rng.usize_below(3)]);
            if rng.chance(1, 2) {
                v.push("-d".into());
            }
            if rng.chance(1, 2) {
                // a view of one link only: the reader skips the others, and meets the broken RDH while skipping
                v.extend(Filter::Link(st.links[rng.usize_below(st.links.len())].link_id).args());
            }
            other(v, &mut rng);
            let mut wr = Filter::Link(st.links[rng.usize_below(st.links.len())].link_id).args();
            if rng.chance(1, 2) {
                wr.extend(s(&["-o", "@OUT@"]));
            }
            other(wr, &mut rng);
            // the check itself on one link only
            let mut ck = s(CHECK_MODES[mode_i]);
            ck.extend(Filter::Link(st.links[rng.usize_below(st.links.len())].link_id).args());
            other(ck, &mut rng);
        }
        let label = format!("{class} | {} | -E {}", CHECK_MODES[mode_i].join(" "), if exit_code.is_some() { "n" } else { "absent" });
        Trial::ExitContract { specs, kinds, class: class.to_string(), exit_code, label }
    }
}

fn make_rejected(rng: &mut Rng) -> Trial {
    let cfg = GenCfg::swarm(rng, false);
    let input = gen_conforming(&cfg, rng).bytes();
    let combos: Vec<(&str, Vec<&str>)> = vec![
        ("check sanity its-stave", vec!["check", "sanity", "its-stave"]),
        ("check sanity its-stave with stave filter and period", vec!["check", "sanity", "its-stave", "-s", "L0_1", "-p", "100"]),
        ("check sanity its with stave filter and period", vec!["check", "sanity", "its", "-s", "L0_1", "-p", "100"]),
        ("-p without stave filter", vec!["check", "all", "its-stave", "-p", "100"]),
        ("-p with target its", vec!["check", "all", "its", "-s", "L0_1", "-p", "100"]),
        ("-p without target", vec!["check", "all", "-s", "L0_1", "-p", "100"]),
        ("-p with view", vec!["view", "rdh", "-s", "L0_1", "-p", "100"]),
        ("-E 0", vec!["check", "all", "-E", "0"]),
        ("-o without filter", vec!["-o", "@OUT@"]),
        ("-S without -D", vec!["check", "sanity", "-S", "@STATS@"]),
        ("-D without -S", vec!["check", "sanity", "-D", "json"]),
        ("two filters", vec!["check", "sanity", "-f", "1", "-F", "2"]),
        ("input stats wrong extension", vec!["check", "sanity", "-i", "@INSTATS@"]),
        ("input stats extension in another case", vec!["check", "sanity", "-i", "@INSTATS@"]),
        ("input stats missing", vec!["check", "sanity", "-i", "@INSTATS@.nope.json"]),
        ("unknown subcommand", vec!["check", "everything"]),
        ("bad link value", vec!["check", "sanity", "-f", "300"]),
    ];
    let (name, args) = combos[rng.usize_below(combos.len())].clone();
    let mut parts: Vec<String> = args.iter().map(|x| x.to_string()).collect();
    // a valid -S / -o next to the invalid part, so that "no output written" is observable
    if !parts.iter().any(|a| a == "-S" || a == "-D") && rng.chance(1, 2) {
        parts.extend(s(&["-S", "@STATS@", "-D", "json"]));
    }
    // the template that -g writes into the current directory is output too
    if rng.chance(1, 3) && name != "unknown subcommand" {
        parts.push("-g".into());
    }
    let im = pick_input_mode(rng);
    let mut spec = specgen::spec(im, &parts, input);
    if name == "input stats wrong extension" {
        spec.input_stats = Some("{}".to_string());
        spec.input_stats_ext = "txt".to_string();
    }
    if name == "input stats extension in another case" {
        // (only `json` / `toml` are accepted, as written)
        spec.input_stats = Some("{}".to_string());
        spec.input_stats_ext = rng.pick(&["JSON", "Json", "TOML", "Toml", "jsoN"]).to_string();
    }
    Trial::Rejected { spec, label: format!("rejected: {name}") }
}

// ------------------------------------------------------------------------------------------------
// C07
// ------------------------------------------------------------------------------------------------
pub struct Truthful;

impl Scenario for Truthful {
    fn property(&self) -> &'static str {
        "C07"
    }
    fn n_cases(&self, tier: Tier) -> u64 {
        match tier {
            Tier::Quick => 4_000,
            Tier::Thorough => 200_000,
        }
    }
    fn rule(&self) -> String {
        "case = well-framed stream whose payload slot size matches the header's data format: (a) arbitrary header \
         values + random 80-bit words (known and unknown IDs) in formats 0 and 2, (b) conforming multi-link streams \
         hit by 1..6 layout-preserving corruption faults; x five check modes x filter (present / absent / none) x \
         -m / statistics file x {file, pipe} x seeded schedules. Every message (stderr and statistics file) is \
         checked: leading offset inside the input and equal to a walker RDH start (RDH messages) or word-slot start \
         (all others); `[b0 .. b9]` dump == the 10 input bytes there; `current :` row fields == independent decoding \
         of the RDH there; quoted frame end is a word start. Non-trivial: >= 1 message checked. Distinct: (input \
         hash, trace hash). Probes count messages checked per kind."
            .into()
    }
    fn make(&self, seed: u64, case: u64, _tier: Tier) -> Trial {
        let mut rng = Rng::new(seed);
        let mode_i = (case % 5) as usize;
        let label_src;
        let corpus_pick = if case % 8 == 7 { crate::corpus::pick(&mut rng, 300_000, true) } else { None };
        let input = if let Some((_, mut b)) = corpus_pick {
            // the repository's sample files, bits flipped inside payload words only
            label_src = "sample files";
            let k = rng.below(8);
            crate::corpus::flip_word_bits(&mut b, &mut rng, k);
            b
        } else if case % 2 == 0 {
            label_src = "random words";
            let n = rng.range(1, 60) as usize;
            let nl = rng.range(1, 5) as usize;
            let mw = *rng.pick(&[3usize, 12, 60]);
            let sane = rng.chance(1, 2);
            gen_framed_words(&mut rng, n, mw, nl, 80, sane)
        } else {
            label_src = "corrupted conforming";
            let cfg = GenCfg::swarm(&mut rng, mode_i == 4);
            let mut st = gen_conforming(&cfg, &mut rng);
            for _ in 0..rng.range(1, 6) {
                loop {
                    let mut probe = st.clone();
                    let f = corrupt::corrupt_stream(&mut probe, &mut rng);
                    if f != "size_inconsistent" && f != "rdh_bit_flip" && f != "rdh_field_extreme" {
                        st = probe;
                        break;
                    }
                    if f == "rdh_bit_flip" || f == "rdh_field_extreme" {
                        // header corruption must keep framing and the data-format field intact
                        let ok = probe.order.iter().all(|&(l, p)| {
                            let pk = &probe.links[l].packets[p];
                            let orig = &st.links[l].packets[p];
                            pk.rdh.offset_next == orig.rdh.offset_next
                                && pk.rdh.memory_size == orig.rdh.memory_size
                                && pk.rdh.data_format == orig.rdh.data_format
                        });
                        if ok {
                            st = probe;
                            break;
                        }
                    }
                }
            }
            st.bytes()
        };
        let f = filter_from_walk(&input, &mut rng);
        let mut parts = s(CHECK_MODES[mode_i]);
        parts.extend(f.args());
        let mut ext = "json";
        if rng.chance(1, 2) {
            ext = if rng.chance(1, 2) { "json" } else { "toml" };
            parts.extend(s(&["-S", "@STATS@", "-D", ext]));
            if rng.chance(1, 2) {
                parts.push("-m".into());
            }
        }
        let im = pick_input_mode(&mut rng);
        let mut spec = specgen::spec(im, &parts, input);
        spec.stats_ext = ext.to_string();
        if rng.chance(3, 4) {
            swarm_schedule(&mut spec, &mut rng, 1000);
        }
        if rng.chance(1, 3) {
            benign_io(&mut spec, &mut rng);
        }
        let label = format!(
            "{label_src} | {} | {}",
            CHECK_MODES[mode_i].join(" "),
            if f == Filter::None { "no filter" } else { "filter" }
        );
        Trial::Truthful { spec, label }
    }
}

// ------------------------------------------------------------------------------------------------
// C19
// ------------------------------------------------------------------------------------------------
pub struct Views;

impl Scenario for Views {
    fn property(&self) -> &'static str {
        "C19"
    }
    fn n_cases(&self, tier: Tier) -> u64 {
        match tier {
            Tier::Quick => 2_500,
            Tier::Thorough => 100_000,
        }
    }
    fn rule(&self) -> String {
        "case = well-framed stream: (a) arbitrary header values (all detector-field and trigger bits) + random ITS \
         words in both data formats with every flag combination of TDH/TDT/DDW0 (random bits), known and unknown \
         IDs, or (b) conforming multi-link streams (> 100 packets in part of the cases so that per-batch headers \
         repeat; a quarter of the `view rdh` streams with filler bytes between memory size and offset-to-next); x the three views x filter (present / absent / none) x {file, pipe} x seeded schedules x benign \
         short writes / EINTR on stdout. Oracle: rows parsed back from captured stdout: one row per walker RDH and \
         per status word (and per data word in the data view; unknown IDs as an error line) in order, offset == \
         walker offset, raw bytes == input bytes, decoded attributes (stave, trigger kind, link, lane status, \
         orbit_bc; TDH trigger/continuation/no-data/orbit_bc; TDT packet status and lane faults; DDW0 lane faults) == \
         reference decoding from the documented bit layouts; styled output with ANSI sequences and whitespace \
         removed == unstyled; conforming data shows no error. Non-trivial: >= 2 packets and >= 3 threads."
            .into()
    }
    fn make(&self, seed: u64, case: u64, _tier: Tier) -> Trial {
        let mut rng = Rng::new(seed);
        let corpus_pick = if case % 10 == 9 { crate::corpus::pick(&mut rng, 300_000, true) } else { None };
        let from_corpus = corpus_pick.is_some();
        let conforming = case % 3 == 2 && !from_corpus;
        let input = if let Some((_, mut b)) = corpus_pick {
            let k = rng.below(6);
            crate::corpus::flip_word_bits(&mut b, &mut rng, k);
            b
        } else if conforming {
            let mut cfg = GenCfg::swarm(&mut rng, false);
            if rng.chance(1, 4) {
                cfg.hbfs = (10, 30);
            }
            gen_conforming(&cfg, &mut rng).bytes()
        } else {
            let n = if rng.chance(1, 6) { rng.range(100, 230) as usize } else { rng.range(1, 60) as usize };
            let nl = rng.range(1, 5) as usize;
            // (1 in 8: payloads of up to ~9900 bytes, beyond the 8 KiB a pipe reader may assume for a page)
            let mw = if rng.chance(1, 8) { 990 } else { *rng.pick(&[3usize, 12, 60]) };
            let n = if mw > 100 { n.min(12) } else { n };
            let pu = if rng.chance(1, 2) { 0 } else { 60 };
            let sane = rng.chance(1, 2);
            gen_framed_words(&mut rng, n, mw, nl, pu, sane)
        };
        // (view and workload kind are drawn independently of each other)
        let v = VIEW_MODES[((case / 3) % 3) as usize];
        // `view rdh` walks the chain by offset-to-next alone: 1 in 4 of its generated streams store the packets in
        // slots - filler bytes between the end of a payload (memory size) and the next RDH (offset-to-next)
        let mut input = input;
        if v == VIEW_MODES[0] && !from_corpus && rng.chance(1, 4) {
            let w = walk(&input);
            if w.end == itsgen::walker::WalkEnd::Clean && w.pkts.iter().all(|p| p.rdh.memory_size == p.rdh.offset_next) {
                let mut out: Vec<u8> = Vec::with_capacity(input.len() * 2);
                for p in &w.pkts {
                    let mut r = p.rdh.clone();
                    let gap = (rng.range(1, 200) as usize).min(10_064usize.saturating_sub(r.memory_size as usize));
                    r.offset_next = r.memory_size + gap as u16;
                    out.extend_from_slice(&r.to_bytes());
                    out.extend_from_slice(&input[p.payload.clone()]);
                    let mut fill = vec![0u8; gap];
                    rng.fill(&mut fill);
                    out.extend_from_slice(&fill);
                }
                input = out;
            }
        }
        let f = filter_from_walk(&input, &mut rng);
        let mut parts = s(v);
        parts.extend(f.args());
        let im = pick_input_mode(&mut rng);
        let mut styled = specgen::spec(im.clone(), &parts, input.clone());
        parts.push("-d".into());
        let mut plain = specgen::spec(im, &parts, input);
        for sp in [&mut plain, &mut styled] {
            if rng.chance(3, 4) {
                swarm_schedule(sp, &mut rng, 800);
            }
            if rng.chance(1, 2) {
                benign_io(sp, &mut rng);
            }
        }
        let label = format!(
            "{} | {} | {}",
            v.join(" "),
            if from_corpus {
                "sample files"
            } else if conforming {
                "conforming"
            } else {
                "random words"
            },
            if f == Filter::None { "no filter" } else { "filter" }
        );
        Trial::Views { plain, styled, conforming, label }
    }
}

// ------------------------------------------------------------------------------------------------
// C12
// ------------------------------------------------------------------------------------------------
pub struct PayloadCut;

impl Scenario for PayloadCut {
    fn property(&self) -> &'static str {
        "C12"
    }
    fn n_cases(&self, tier: Tier) -> u64 {
        match tier {
            Tier::Quick => 3_000,
            Tier::Thorough => 150_000,
        }
    }
    fn rule(&self) -> String {
        "three kinds of case. (1) word table from the views: arbitrary-header packets whose payloads hold 0..700 \
         random ITS words in format 0 (16-byte slots) or format 2 (10-byte words + 0..15 bytes 0xFF; every residue of \
         the size mod 10 and mod 16 occurs) shown by `view its-readout-frames-data -d` / `view its-readout-frames -d`: \
         rows == the independent word table (every word once, in order, at its offset, with its bytes; no row made \
         of padding). (2) words planted as position markers: conforming multi-link streams (both formats, padding \
         0..15) in which data words at chosen indices get an invalid ID; `check sanity its` / `check all its` must \
         report exactly those offsets (E991/E70) and nothing else - 1 planted word in 4 behind an RDH that is itself \
         faulty (header size, priority bit, reserved bits: [E10] at the RDH, words unmoved). (3) excess-padding fault (16..40 bytes 0xFF; both data formats) on a \
         continuation page (mid-continuation) or on the last data page before a stop page, with recovery: exactly one \
         `Payload error following RDH` at that RDH, no message inside the skipped payload, and the next packet is \
         judged from the initial state (mid-continuation: no further error; before a stop page: the DDW0 is judged \
         as the expected IHW, [E30]). All under seeded schedules and benign I/O faults. Non-trivial: >= 4 threads \
         (checks) / >= 2 packets (views)."
            .into()
    }
    fn make(&self, seed: u64, case: u64, _tier: Tier) -> Trial {
        let mut rng = Rng::new(seed);
        match case % 3 {
            0 => {
                // (1) views
                let n = rng.range(1, 12) as usize;
                let mw = *rng.pick(&[0usize, 1, 2, 9, 40, 200, 700]);
                // (unknown IDs in half of the cases - among them 0xFF, the one that looks like padding)
                let pu = if rng.chance(1, 2) { 0 } else { *rng.pick(&[30u64, 150]) };
                let input = gen_framed_words(&mut rng, n, mw, 1, pu, true);
                // 1 payload in 5 (data format 2, two words or more): the second word begins with exactly five zero
                // bytes - one short of what the tool takes for the filler of a 16-byte slot
                let mut zr = rng.fork(5);
                let input = rebuild_stream(&input, &mut |_, r, payload| {
                    if r.data_format == 2 && payload.len() >= 20 && zr.chance(1, 5) {
                        // (or the mirror image: the five bytes after a first byte that is not zero)
                        let (zeros, keep) = if zr.chance(1, 2) { (10..15, 15) } else { (11..16, 10) };
                        for b in payload[zeros].iter_mut() {
                            *b = 0;
                        }
                        if payload[keep] == 0 {
                            payload[keep] = 1 + zr.below(255) as u8;
                        }
                    }
                });
                let v = if rng.chance(1, 2) { VIEW_MODES[2] } else { VIEW_MODES[1] };
                let mut parts = s(v);
                let im = pick_input_mode(&mut rng);
                let mut styled = specgen::spec(im.clone(), &parts, input.clone());
                parts.push("-d".into());
                let mut plain = specgen::spec(im, &parts, input);
                for sp in [&mut plain, &mut styled] {
                    if rng.chance(1, 2) {
                        swarm_schedule(sp, &mut rng, 500);
                    }
                    if rng.chance(1, 2) {
                        benign_io(sp, &mut rng);
                    }
                }
                Trial::Views { plain, styled, conforming: false, label: format!("word table | {}", v.join(" ")) }
            }
            1 => {
                // (2) markers
                let mut cfg = GenCfg::swarm(&mut rng, false);
                cfg.data_words = (1, 30);
                cfg.p_no_data = 100;
                let mut st = gen_conforming(&cfg, &mut rng);
                let offs = st.offsets();
                let mut markers = Vec::new();
                let want = rng.range(1, 6);
                for _ in 0..want * 4 {
                    if markers.len() as u64 >= want || st.order.is_empty() {
                        break;
                    }
                    let idx = rng.usize_below(st.order.len());
                    let base = offs[idx];
                    let p = st.packet_mut(idx);
                    let cands: Vec<usize> = p
                        .words
                        .iter()
                        .enumerate()
                        .filter(|(_, w)| w.kind == itsgen::words::Kind::Data)
                        .map(|(i, _)| i)
                        .collect();
                    if cands.is_empty() {
                        continue;
                    }
                    let wi = cands[rng.usize_below(cands.len())];
                    // an ID that is no ITS word at all (not 0xFF: that would merge with the padding)
                    p.words[wi].word[9] = *rng.pick(&[0x00u8, 0x01, 0x1F, 0x29, 0x3F, 0x47, 0x4F, 0x57, 0x5F, 0x60, 0x9A, 0xE1, 0xFE]);
                    p.words[wi].kind = itsgen::words::Kind::Unknown;
                    let o = (base + p.word_offset(wi)) as u64;
                    if !markers.contains(&o) {
                        markers.push(o);
                    }
                    // 1 in 4 (never the packet that opens the stream): the RDH in front of the planted word is
                    // itself faulty in a field that changes nothing about the packet - reported at the RDH, and
                    // the planted word is still reported where it is
                    if idx > 0 && rng.chance(1, 4) {
                        match rng.below(3) {
                            0 => p.rdh.header_size = *rng.pick(&[0u8, 0x10, 0x30, 0x3F, 0x41, 0x50, 0x80, 0xFF]),
                            1 => p.rdh.priority = 1,
                            _ => p.rdh.rdh0_reserved = 1 + rng.below(0xFFFF) as u16,
                        }
                    }
                }
                let mode = if rng.chance(1, 2) { CHECK_MODES[1] } else { CHECK_MODES[3] };
                let im = pick_input_mode(&mut rng);
                let mut spec = specgen::spec(im, &s(mode), st.bytes());
                if rng.chance(3, 4) {
                    swarm_schedule(&mut spec, &mut rng, 300 + st.total_packets() as u64 * 12);
                }
                if rng.chance(1, 2) {
                    benign_io(&mut spec, &mut rng);
                }
                Trial::Markers { spec, marker_offsets: markers, label: format!("markers | {}", mode.join(" ")) }
            }
            _ => {
                // (3) excess padding + recovery
                let mut cfg = GenCfg::swarm(&mut rng, false);
                // both data formats (a 0xFF run after 16-byte slots is excess padding just the same)
                cfg.data_format = if rng.chance(1, 3) { 0 } else { 2 };
                cfg.data_pages = (2, 4);
                cfg.p_split = 600;
                // no calibration words: a CDW index sequence that began inside the skipped payload makes
                // the next packet non-conforming when judged from the initial state ([E81] is then right)
                cfg.p_cdw = 0;
                cfg.data_words = (2, 20);
                cfg.hbfs = (2, 4);
                let mut st = gen_conforming(&cfg, &mut rng);
                // candidates: continuation pages (first TDH has continuation set) whose successor in the
                // link is a normal data page; or last data pages (successor is the stop page)
                let mut cands: Vec<(usize, usize, bool)> = Vec::new(); // (link, packet, before_stop)
                for (li, l) in st.links.iter().enumerate() {
                    for pi in 0..l.packets.len().saturating_sub(1) {
                        let p = &l.packets[pi];
                        let nx = &l.packets[pi + 1];
                        if p.rdh.stop_bit != 0 || nx.hbf != p.hbf {
                            continue;
                        }
                        let is_cont = p.words.get(1).map_or(false, |w| {
                            w.kind == itsgen::words::Kind::Tdh && itsgen::words::Tdh::from_word(&w.word).continuation
                        });
                        let ends_done = p.words.last().map_or(false, |w| {
                            w.kind == itsgen::words::Kind::Tdt && itsgen::words::Tdt::from_word(&w.word).packet_done
                        });
                        if nx.rdh.stop_bit == 1 {
                            cands.push((li, pi, true));
                        } else if is_cont && ends_done {
                            // next page must itself be a fresh (non-continuation) page
                            cands.push((li, pi, false));
                        }
                    }
                }
                if cands.is_empty() {
                    // degenerate stream: fall back to a marker-free conforming check
                    let im = pick_input_mode(&mut rng);
                    let spec = specgen::spec(im, &s(CHECK_MODES[3]), st.bytes());
                    return Trial::Markers { spec, marker_offsets: vec![], label: "markers | none".into() };
                }
                let (li, pi, before_stop) = cands[rng.usize_below(cands.len())];
                {
                    let p = &mut st.links[li].packets[pi];
                    p.padding = rng.range(16, 40) as usize;
                    p.fix_sizes();
                }
                // in half of the mid-continuation cases a second payload of the SAME link gets the fault too
                // (another continuation page, so the state machine is not in its initial state either)
                let mut second_pi: Option<usize> = None;
                if !before_stop && rng.chance(1, 2) {
                    let others: Vec<usize> =
                        cands.iter().filter(|&&(l, p, bs)| l == li && !bs && p != pi && p + 1 != pi && pi + 1 != p).map(|&(_, p, _)| p).collect();
                    if !others.is_empty() {
                        let p2 = others[rng.usize_below(others.len())];
                        let p = &mut st.links[li].packets[p2];
                        p.padding = rng.range(16, 40) as usize;
                        p.fix_sizes();
                        second_pi = Some(p2);
                    }
                }
                let offs = st.offsets();
                let pos_of = |li: usize, pi: usize| -> usize {
                    let k = st.order.iter().position(|&(l, p)| l == li && p == pi).unwrap();
                    offs[k]
                };
                let rdh_off = pos_of(li, pi) as u64;
                let payload_end = rdh_off + st.links[li].packets[pi].rdh.memory_size as u64;
                let e30_at = if before_stop { Some(pos_of(li, pi + 1) as u64 + 64) } else { None };
                let mode = if rng.chance(1, 2) { CHECK_MODES[1] } else { CHECK_MODES[3] };
                let im = pick_input_mode(&mut rng);
                // (1 in 3 at another verbosity: what is logged must not change what is done)
                let mut parts = s(mode);
                if rng.chance(1, 3) {
                    parts.extend(s(&["-v", *rng.pick(&["0", "2", "3"])]));
                }
                let mut spec = specgen::spec(im, &parts, st.bytes());
                if rng.chance(3, 4) {
                    swarm_schedule(&mut spec, &mut rng, 300 + st.total_packets() as u64 * 12);
                }
                let second = second_pi.map(|p2| {
                    let o = pos_of(li, p2) as u64;
                    (o, o + st.links[li].packets[p2].rdh.memory_size as u64)
                });
                Trial::ExcessPadding {
                    spec,
                    rdh_off,
                    payload_end,
                    expect_only_payload_error: !before_stop,
                    e30_at,
                    second,
                    label: format!(
                        "excess padding {} | {}",
                        if before_stop { "before stop page" } else { "mid-continuation" },
                        mode.join(" ")
                    ),
                }
            }
        }
    }
}

// ------------------------------------------------------------------------------------------------
// C10
// ------------------------------------------------------------------------------------------------
pub struct RdhWalk;

impl Scenario for RdhWalk {
    fn property(&self) -> &'static str {
        "C10"
    }
    fn n_cases(&self, tier: Tier) -> u64 {
        match tier {
            Tier::Quick => 3_000,
            Tier::Thorough => 150_000,
        }
    }
    fn rule(&self) -> String {
        "case = 1..8 links, each an RDH-only packet history that starts at an HBF start (pages 0 and 1 clean) and \
         then walks HBFs of 2..6 pages; from the third RDH on, faults are injected with a per-case rate (0, 5, 20, \
         50 %): single-bit flips over the 512 header bits (framing and link fields excluded), boundary values (BC \
         0xdea/0xdeb/0xdec, stave 47/48/63, layer 6/7, stop bit 0/1/2/255, data format 0..3, DW 0..2, trigger spare \
         bits / zero, detector-field bits, system ID, version), page-counter jumps, stop-bit toggles, orbit kept after \
         a stop, orbit / trigger / FEE change inside an HBF, packet loss, duplication and reordering; links merged \
         contiguously, round-robin or randomly; modes check sanity / check all x target none / its; histories of up \
         to thousands of RDHs per link in the thorough tier; run through the whole pipeline under seeded schedules. \
         Oracle (exact, both directions): [E10] at an RDH's offset iff the documented sanity predicate fails \
         (relative to the first version the link saw - or, in a fifth of the cases, to the version pinned with a \
         custom-checks file, which must leave every other rule untouched; system ID only with target its); [E11] iff the documented \
         running automaton flags it (check all only; never in check sanity); nothing else is reported. \
         Non-trivial: >= 3 RDHs and >= 4 threads."
            .into()
    }
    fn make(&self, seed: u64, case: u64, tier: Tier) -> Trial {
        let mut rng = Rng::new(seed);
        let n_links = rng.range(1, 8) as usize;
        let hbfs = match (tier, rng.below(10)) {
            (Tier::Thorough, 0) => 600,
            (_, 0 | 1) => 40,
            _ => 6,
        };
        let p = *rng.pick(&[0u64, 50, 200, 500]);
        let h = itsgen::rdhwalk::gen_history(&mut rng, n_links, hbfs, p);
        let mode_i = [0usize, 1, 2, 3][(case % 4) as usize];
        let its = mode_i == 1 || mode_i == 3;
        let running = mode_i >= 2;
        // a custom-checks file that pins the RDH version (to the stream's first one) must leave every
        // other rule as it is - the ITS system-ID rule in particular
        let pinned = if rng.chance(1, 5) { h.wire.first().map(|r| r.version) } else { None };
        let (e10, e11) = h.expected_with_version(its, pinned);
        let im = pick_input_mode(&mut rng);
        let mut parts = s(CHECK_MODES[mode_i]);
        if pinned.is_some() {
            parts.extend(s(&["-c", "@CHECKS@"]));
        }
        let mut spec = specgen::spec(im, &parts, h.bytes());
        if let Some(v) = pinned {
            spec.custom_checks_toml = Some(format!("rdh_version = {v}\n"));
        }
        if rng.chance(3, 4) {
            swarm_schedule(&mut spec, &mut rng, 300 + h.wire.len() as u64 * 10);
        }
        if rng.chance(1, 3) {
            benign_io(&mut spec, &mut rng);
        }
        Trial::RdhWalk {
            spec,
            e10,
            e11,
            running,
            label: format!(
                "{}{} | fault rate {}%",
                CHECK_MODES[mode_i].join(" "),
                if pinned.is_some() { " | rdh_version pinned" } else { "" },
                p / 10
            ),
        }
    }
}

// ------------------------------------------------------------------------------------------------
// C09
// ------------------------------------------------------------------------------------------------
pub struct FsmWalk;

impl Scenario for FsmWalk {
    fn property(&self) -> &'static str {
        "C09"
    }
    fn n_cases(&self, tier: Tier) -> u64 {
        match tier {
            Tier::Quick => 4_000,
            Tier::Thorough => 400_000,
        }
    }
    fn rule(&self) -> String {
        "case = a seeded walk of 20..600 words over the alphabet {IHW, TDH x no_data x continuation, TDT x \
         packet_done, DDW0, CDW, inner / outer data word, unknown ID} with arbitrary other bits, cut into packets \
         of one link. The next word is drawn legal for the diagram's current state with probability 1-p and \
         illegal with probability p (p in 0, 5, 15, 40 % per case), biased so that every (state, illegal word kind) \
         pair recurs. The real ItsPayloadFsmContinuous::advance (state read through the guarded verif_state_id \
         accessor) and the real CdpRunningValidator::check run in-process on the harness thread. Oracle: step-by-step \
         refinement of the diagram model transcribed from doc/ITS_payload_fsm_continuous_mode.puml (DESIGN.md appendix \
         C): same classification, same successor for every legal word; an illegal word yields, at that word's \
         offset, [E30]/[E40] in single-successor states and [E990]/[E991]/[E992] in choice states; a legal word is \
         never reported as unrecognised. Coverage: `distinct_interleavings_trace_hash` counts distinct (implementation \
         state, diagram state, word kind, legal?) tuples reached out of 8 x 7 = 56. No scheduler is involved (the FSM \
         is sequential and owned by one validator thread); `executions` is 0 because nothing is forked. \
         Non-trivial: >= 2 words; distinct: hash of the word sequence."
            .into()
    }
    fn assumptions(&self) -> Vec<String> {
        vec![
            "the diagram model treats the Data state as the choice {data word, CDW, TDT} (DESIGN.md appendix C); the successor after an illegal word is not prescribed by the diagram and is taken from the implementation".into(),
        ]
    }
    fn make(&self, seed: u64, _case: u64, _tier: Tier) -> Trial {
        use itsgen::models::{diagram_step, St, Step};
        let mut rng = Rng::new(seed);
        let n = rng.range(20, 600) as usize;
        let p_illegal = *rng.pick(&[0u64, 50, 150, 400]);
        let mut words: Vec<u8> = Vec::with_capacity(n * 10);
        let mut st = St::Ihw;
        const IDS: [u8; 12] = [0xE0, 0xE8, 0xE8, 0xF0, 0xF0, 0xE4, 0xF8, 0x20, 0x28, 0x43, 0x5E, 0x4B];
        // state may leak through *equality* with an earlier word (a validator that skips work when a word
        // equals the one it stored): a fifth of the candidates repeat, byte for byte, the last word seen in
        // the same kind of state (IHW / c_IHW, TDH / c_TDH, data, choice states)
        let class_of = |s: St| -> usize {
            match s {
                St::Ihw | St::CIhw => 0,
                St::Tdh | St::CTdh => 1,
                St::Data | St::CData => 2,
                St::AfterNoData | St::AfterTdt => 3,
            }
        };
        let mut last_in_class: [Option<[u8; 10]>; 4] = [None; 4];
        for _ in 0..n {
            let want_illegal = rng.chance(p_illegal, 1000);
            let mut w = [0u8; 10];
            let mut tries = 0;
            loop {
                if let (true, Some(prev)) = (rng.chance(1, 5), last_in_class[class_of(st)]) {
                    w = prev;
                    let legal = matches!(diagram_step(st, &w), Step::Legal(..));
                    tries += 1;
                    if legal != want_illegal {
                        break;
                    }
                }
                rng.fill(&mut w);
                w[9] = if rng.chance(1, 8) {
                    // unknown ID
                    loop {
                        let id = rng.below(256) as u8;
                        if itsgen::words::kind_of_id(id) == itsgen::words::Kind::Unknown {
                            break id;
                        }
                    }
                } else {
                    *rng.pick(&IDS)
                };
                let legal = matches!(diagram_step(st, &w), Step::Legal(..));
                tries += 1;
                if legal != want_illegal || tries > 40 {
                    break;
                }
            }
            words.extend_from_slice(&w);
            last_in_class[class_of(st)] = Some(w);
            st = match diagram_step(st, &w) {
                Step::Legal(_, next) => next,
                // after an illegal word the implementation decides; approximate for generation only
                Step::Illegal(_) => match st {
                    St::Ihw => St::Tdh,
                    St::CIhw => St::CTdh,
                    St::Tdh => St::Data,
                    St::CTdh => St::CData,
                    St::AfterNoData => St::Data,
                    St::AfterTdt => St::Ihw,
                    x => x,
                },
            };
        }
        // cut into packets
        let mut packet_lens = Vec::new();
        let mut left = n as u32;
        while left > 0 {
            let k = (rng.range(1, 60) as u32).min(left);
            packet_lens.push(k);
            left -= k;
        }
        Trial::FsmWalk { words, packet_lens, label: format!("illegal rate {}%", p_illegal / 10) }
    }
}

// ------------------------------------------------------------------------------------------------
// C02
// ------------------------------------------------------------------------------------------------
pub struct Faults;

impl Scenario for Faults {
    fn property(&self) -> &'static str {
        "C02"
    }
    fn n_cases(&self, tier: Tier) -> u64 {
        match tier {
            Tier::Quick => 2_200,
            Tier::Thorough => 110_000,
        }
    }
    fn rule(&self) -> String {
        format!(
            "case = conforming multi-link stream (swarm grammar as in C01; stave-mode content in half of the cases) + \
             ONE entry of the stream-fault catalogue ({} entries + {} stave-level entries, cycled so that every entry \
             recurs >= 40 times in the quick tier) applied at a seeded applicable position (RDH / word occurrence, \
             any link, any packet after the link's first two) with a seeded boundary value; the faulty stream is run \
             in all check modes (4, or 5 with its-stave for stave-mode content; for half of the stave-mode cases once more \
             with the stave filter of the faulty link and a trigger period configured), each with -E n and under its own \
             seeded schedule. Entries: RDH sanity fields (E10), packet loss / duplication / adjacent reordering and \
             page / stop / orbit / trigger / FEE edits (E11, E12, E110, E111), status-word and data-word IDs and \
             reserved bits (E30, E40, E50, E60, E70, E990, E991, E992), continuation / orbit / BC / trigger relations \
             (E41, E42, E44, E440-E445), CDW index (E81), inactive lane (E71, E72), connector 7 (E73), excess \
             padding, missing lane / empty frame / frame end without start (E72, E73, E701, E59). Oracle (one-sided): \
             in every mode where the rule is documented active, >= 1 message of the documented family at the byte \
             offset of the offending RDH / word, and exit status == n; purely stateful violations are silent in \
             check sanity. Cascading extra errors are allowed. Non-trivial: every case; distinct: (input hash, \
             trace hash). `fault_kinds_fired` counts stream_fault:<entry> applications.",
            itsgen::faults::FAULTS.len(),
            itsgen::faults::STAVE_FAULTS.len()
        )
    }
    fn make(&self, seed: u64, case: u64, _tier: Tier) -> Trial {
        let mut rng = Rng::new(seed);
        let nf = itsgen::faults::FAULTS.len() + itsgen::faults::STAVE_FAULTS.len();
        let mut k = (case as usize) % nf;
        // retry with fresh streams until the entry is applicable
        for attempt in 0..60u64 {
            let name: &'static str = if k < itsgen::faults::FAULTS.len() {
                itsgen::faults::FAULTS[k]
            } else {
                itsgen::faults::STAVE_FAULTS[k - itsgen::faults::FAULTS.len()]
            };
            let stave_entry = k >= itsgen::faults::FAULTS.len();
            let stave = stave_entry || rng.chance(1, 2);
            let mut cfg = GenCfg::swarm(&mut rng, stave);
            // make the structures the entries need likely
            cfg.hbfs = (2, cfg.hbfs.1.max(3));
            cfg.data_pages = (2, 4);
            if matches!(name, "cdw_index") {
                cfg.p_cdw = 700;
            }
            if matches!(name, "tdh_continuation_cleared" | "tdh_continuation_mismatch") {
                cfg.p_split = 600;
            }
            if matches!(name, "tdh_bc_decreasing" | "tdh_id_choice_state" | "tdh_reserved_choice_state") {
                cfg.triggers = (2, 4);
            }
            if name.ends_with("_continuation") {
                cfg.p_split = 600;
                cfg.data_pages = (2, 4);
            }
            if matches!(name, "tdh_bc_vs_rdh" | "tdh_trigger_vs_rdh") {
                cfg.triggers = (1, 1);
                // (in 1 of 3 no internal triggers at all: the candidates are then the physics triggers)
                cfg.p_internal = if rng.chance(1, 3) { 0 } else { 1000 };
                cfg.p_split = 0;
            }
            if name == "rdh_data_format" {
                cfg.data_format = 2;
            }
            if !stave {
                cfg.data_words = (1, cfg.data_words.1.max(4));
            }
            if attempt > 20 {
                cfg.p_no_data = 100;
            }
            let mut st = gen_conforming(&cfg, &mut rng);
            let mut lockstep = false;
            if name == "fee_edit_page_n" && !stave && rng.chance(1, 2) {
                lockstep = true;
                // two links in lockstep (the usual CRU order): the second link is a twin of the first - same pages,
                // page by page - under another link number and FEE ID, merged round robin
                let mut twin = st.links[0].clone();
                let used_links: Vec<u8> = st.links.iter().map(|l| l.link_id).collect();
                let used_fees: Vec<u16> = st.links.iter().map(|l| l.fee_id).collect();
                let nl = (0..12u8).find(|l| !used_links.contains(l)).unwrap_or(15);
                let nf = loop {
                    let f = itsgen::rdh::fee_id(((twin.fee_id >> 12) & 7) as u8, rng.below(48) as u8, ((twin.fee_id >> 8) & 3) as u8);
                    if !used_fees.iter().any(|u| itsgen::rdh::layer_stave_match(*u, f)) {
                        break f;
                    }
                };
                twin.link_id = nl;
                twin.fee_id = nf;
                for p in twin.packets.iter_mut() {
                    p.rdh.link_id = nl;
                    p.rdh.fee_id = nf;
                }
                st.links.truncate(1);
                st.links.push(twin);
                st.remerge(itsgen::gen::Merge::RoundRobin, &mut rng);
            }
            let applied = match itsgen::faults::apply(&mut st, name, &mut rng) {
                Some(a) => a,
                None => continue,
            };
            let exit_code = rng.range(1, 255) as i32;
            let input = st.bytes();
            let im = pick_input_mode(&mut rng);
            let mut runs = Vec::new();
            let n_modes = if stave { 5 } else { 4 };
            for m in 0..n_modes {
                let mut parts = s(CHECK_MODES[m]);
                parts.extend(s(&["-E", &exit_code.to_string()]));
                let mut sp = specgen::spec(im.clone(), &parts, input.clone());
                if rng.chance(2, 3) {
                    swarm_schedule(&mut sp, &mut rng, 300 + st.total_packets() as u64 * 12);
                }
                runs.push((m, sp));
            }
            if stave && rng.chance(1, 2) {
                // stave checks once more, restricted to the stave that carries the fault and with a trigger
                // period configured (whatever its value: [E45] messages are extra findings) - every other rule
                // stays in force
                let w = walk(&input);
                let fee_at = |off: u64| w.pkts.iter().find(|p| (p.off as u64) <= off && off < (p.off + p.rdh.offset_next as usize) as u64).map(|p| p.rdh.fee_id & 0b0111_0000_0011_1111);
                let fees: Vec<Option<u16>> = applied.expects.iter().map(|e| fee_at(e.offset)).collect();
                if let Some(Some(f0)) = fees.first().copied() {
                    if fees.iter().all(|f| *f == Some(f0)) {
                        let mut parts = s(CHECK_MODES[4]);
                        parts.extend(Filter::Stave(f0).args());
                        parts.extend(s(&["-p", &rng.range(1, 3563).to_string()]));
                        parts.extend(s(&["-E", &exit_code.to_string()]));
                        let mut sp = specgen::spec(im.clone(), &parts, input.clone());
                        if rng.chance(2, 3) {
                            swarm_schedule(&mut sp, &mut rng, 300 + st.total_packets() as u64 * 12);
                        }
                        runs.push((4, sp));
                    }
                }
            }
            let expects = applied
                .expects
                .iter()
                .map(|e| crate::trials::ExpectRec {
                    codes: e.codes.iter().map(|c| c.to_string()).collect(),
                    offset: e.offset,
                    sanity: e.sanity,
                    all: e.all,
                    needs_its: e.needs_its,
                    stave_only: e.stave_only,
                })
                .collect();
            return Trial::Fault {
                runs,
                expects,
                silent_in_sanity: applied.silent_in_sanity,
                silent_in_sanity_no_target: applied.silent_in_sanity_no_target,
                exit_code,
                fault: if lockstep { format!("{} (two links in lockstep)", applied.name) } else { applied.name.to_string() },
            };
        }
        // never applicable for this seed: fall back to another entry (counted under its own name)
        k = 0;
        let cfg = GenCfg::swarm(&mut rng, false);
        let mut st = gen_conforming(&cfg, &mut rng);
        loop {
            if let Some(applied) = itsgen::faults::apply(&mut st, itsgen::faults::FAULTS[k], &mut rng) {
                let exit_code = 3;
                let input = st.bytes();
                let mut parts = s(CHECK_MODES[2]);
                parts.extend(s(&["-E", "3"]));
                let sp = specgen::spec(InputMode::File, &parts, input);
                let expects = applied
                    .expects
                    .iter()
                    .map(|e| crate::trials::ExpectRec {
                        codes: e.codes.iter().map(|c| c.to_string()).collect(),
                        offset: e.offset,
                        sanity: e.sanity,
                        all: e.all,
                        needs_its: e.needs_its,
                        stave_only: e.stave_only,
                    })
                    .collect();
                return Trial::Fault {
                    runs: vec![(2, sp)],
                    expects,
                    silent_in_sanity: false,
                    silent_in_sanity_no_target: false,
                    exit_code,
                    fault: format!("fallback:{}", applied.name),
                };
            }
            k += 1;
            if k >= itsgen::faults::FAULTS.len() {
                st = gen_conforming(&GenCfg::swarm(&mut rng, false), &mut rng);
                k = 0;
            }
        }
    }
}

// ------------------------------------------------------------------------------------------------
// C06
// ------------------------------------------------------------------------------------------------
pub struct Isolate;

/// A fault confined to one link that keeps link id, FEE ID and framing consistent.
/// Size- and group-preserving edit of a header field that is judged against what the link saw first
/// (version) or against a constant.
/// `not_first`: the packet is not the first of its link (so never the first of the stream, whatever the merge):
/// a system ID no detector has is then one of the values - on the first packet of a stream it is a documented
/// refusal of the whole input, anywhere else an RDH finding of that link.
fn rdh_identity_edit(r: &mut itsgen::rdh::Rdh, rng: &mut Rng, not_first: bool) {
    match rng.below(7) {
        0 | 1 => r.version = *rng.pick(&[6u8, 7, 5, 8]),
        2 if not_first => r.system_id = *rng.pick(&[0x20u8, 0x21, 0x03, 0x06, 0x4D, 0x00, 0x63, 0xFE]),
        // (a reserved bit of the FEE ID on single packets was tried here and withdrawn: such a packet IS a packet of
        // another FEE ID as far as dispatching and exact filters can know, so nothing about its link can be expected;
        // FEE IDs that differ in a reserved bit exist as the identity of whole links instead: `reserved_bit_twin`)
        2 => r.system_id = *rng.pick(&[0x20u8, 0x21, 0x03, 0x06]),
        3 => r.priority ^= 1,
        4 => r.detector_field ^= 1 << rng.below(32),
        5 => r.dw = r.dw.wrapping_add(1),
        _ => r.rdh0_reserved ^= 1,
    }
}

fn link_fault(st: &mut Stream, li: usize, rng: &mut Rng) -> &'static str {
    let n = st.links[li].packets.len();
    if n == 0 {
        return "none";
    }
    let p = rng.usize_below(n);
    match rng.below(10) {
        0 if n > 3 => {
            st.links[li].packets.remove(p);
            "packet_loss"
        }
        9 if !st.links[li].packets[p].words.is_empty() => {
            // a payload that ends in more than 15 bytes of 0xFF: a payload error of this link, after which THIS
            // link's next packet is judged from the initial state - whatever happened on other links before
            let pk = &mut st.links[li].packets[p];
            pk.padding = rng.range(16, 40) as usize;
            pk.fix_sizes();
            "excess_padding"
        }
        1 => {
            let c = st.links[li].packets[p].clone();
            st.links[li].packets.insert(p, c);
            "packet_duplication"
        }
        2 if p + 1 < n => {
            st.links[li].packets.swap(p, p + 1);
            "packet_reorder"
        }
        3 => {
            let r = &mut st.links[li].packets[p].rdh;
            match rng.below(5) {
                0 => r.pages_counter = r.pages_counter.wrapping_add(1),
                1 => r.stop_bit ^= 1,
                2 => r.orbit = r.orbit.wrapping_add(1),
                3 => r.bc = 0xdec,
                _ => r.trigger_type |= 1 << 20,
            }
            "rdh_field"
        }
        4 => {
            // fields every link learns or judges on its own: the first packet of the link (which may be
            // the first of the stream) in half of the cases
            let p = if rng.chance(1, 2) { 0 } else { p };
            rdh_identity_edit(&mut st.links[li].packets[p].rdh, rng, p > 0);
            "rdh_identity_field"
        }
        _ => {
            let pk = &mut st.links[li].packets[p];
            if pk.words.is_empty() {
                return "none";
            }
            let wi = rng.usize_below(pk.words.len());
            match rng.below(4) {
                0 => {
                    let bit = rng.usize_below(80);
                    pk.words[wi].word[bit / 8] ^= 1 << (bit % 8);
                    "word_bit_flip"
                }
                1 => {
                    pk.words[wi].word[9] = *rng.pick(&[0x00u8, 0x29, 0xE0, 0xE4, 0xE8, 0xF0, 0xF8, 0x20, 0x43, 0x9A]);
                    "word_id"
                }
                2 => {
                    pk.words.remove(wi);
                    pk.fix_sizes();
                    "word_delete"
                }
                _ => {
                    let w = pk.words[wi].clone();
                    pk.words.insert(wi, w);
                    pk.fix_sizes();
                    "word_duplicate"
                }
            }
        }
    }
}

/// C06 on the repository's multi-link sample files: the groups (links, FEE IDs in stave mode) are
/// cut out of the byte stream with the independent walker.
fn isolate_from_sample_file(rng: &mut Rng, mode_i: usize) -> Option<Trial> {
    let stave = mode_i == 4;
    let group = |p: &itsgen::walker::Pkt| -> u16 { if stave { p.rdh.fee_id } else { p.rdh.link_id as u16 } };
    let mut pick = None;
    for _ in 0..6 {
        let (_, b) = crate::corpus::pick(rng, 300_000, true)?;
        let w = walk(&b);
        let mut groups: Vec<u16> = Vec::new();
        for p in &w.pkts {
            if !groups.contains(&group(p)) {
                groups.push(group(p));
            }
        }
        if groups.len() >= 2 {
            pick = Some((b, w, groups));
            break;
        }
    }
    let (bytes, w, groups) = pick?;
    let pkt_bytes = |p: &itsgen::walker::Pkt| bytes[p.off..p.off + p.rdh.offset_next as usize].to_vec();
    let parts = s(CHECK_MODES[mode_i]);
    let n_pk = w.pkts.len() as u64;
    let mk = |input: Vec<u8>, extra: &[String], rng: &mut Rng| -> ExecSpec {
        let mut p = parts.clone();
        p.extend(extra.iter().cloned());
        let im = pick_input_mode(rng);
        let mut sp = specgen::spec(im, &p, input);
        if rng.chance(4, 5) {
            swarm_schedule(&mut sp, rng, 300 + n_pk * 12);
        }
        sp
    };
    let mut runs: Vec<(IsoRole, ExecSpec)> = vec![(IsoRole::Reference, mk(bytes.clone(), &[], rng))];
    // contiguous merge: group after group
    let mut contiguous = Vec::with_capacity(bytes.len());
    for g in &groups {
        for p in w.pkts.iter().filter(|p| group(p) == *g) {
            contiguous.extend_from_slice(&pkt_bytes(p));
        }
    }
    runs.push((IsoRole::OtherMerge, mk(contiguous, &[], rng)));
    let g = groups[rng.usize_below(groups.len())];
    let mut extracted = Vec::new();
    for p in w.pkts.iter().filter(|p| group(p) == g) {
        extracted.extend_from_slice(&pkt_bytes(p));
    }
    runs.push((IsoRole::Extracted(g), mk(extracted.clone(), &[], rng)));
    let f = if stave { Filter::Fee(g) } else { Filter::Link(g as u8) };
    runs.push((IsoRole::Filtered(g), mk(bytes.clone(), &f.args(), rng)));
    let mut seq = mk(extracted, &[], rng);
    seq.seq_pass = true;
    seq.policy = crate::exec::PolicySpec::Canonical;
    seq.cap_limit = None;
    runs.push((IsoRole::Sequential(g), seq));
    Some(Trial::Isolate { runs, by_fee: stave, label: format!("{} sample files", CHECK_MODES[mode_i].join(" ")) })
}

impl Scenario for Isolate {
    fn property(&self) -> &'static str {
        "C06"
    }
    fn n_cases(&self, tier: Tier) -> u64 {
        match tier {
            Tier::Quick => 1_500,
            Tier::Thorough => 60_000,
        }
    }
    fn rule(&self) -> String {
        "case = multi-link stream (2..8 links; conforming or with 1..4 faults confined to single links: packet loss / \
         duplication / reordering, RDH field edits incl. the fields a link learns from its first packet (version, \
         system ID, priority, reserved bits; first packet of the link in half of the cases), word bit flips / ID \
         changes / deletions / duplications; staves of one layer differing in one bit; two FEE IDs on one link \
         number in stave mode; link numbers from the whole 8-bit range in a third of the link-dispatch cases; one case \
         with 257..300 staves; 1 in 8 a multi-link sample file of the repository cut up by the walker) in one of \
         the modes check all, check all its, check all its-stave, check sanity its. For each case: a reference full \
         run on one merge of the links; a full run on a different merge (contiguous / round-robin / random) of the \
         same per-link sequences; for one link its physically extracted single-link stream; a filter run (-f / -F / \
         -s) on the reference stream; ONE SINGLE-THREADED pass of that link's packets through one real \
         LinkValidator::run on the main thread (no reader, dispatcher or other validators); and the reference stream \
         with an extra word-level fault on another link. Every pipeline run has its own seeded schedule and capacity \
         cap. Messages are normalised with the independent walker: each offset (leading, `ending at 0x..`) becomes \
         (packet index within the link, byte offset within the packet). Oracle: the normalised per-link (per FEE ID \
         in stave mode) message lists are equal in all settings; a fault on link A changes nothing on links != A; a \
         filter run reports nothing for a link none of whose packets match; a compared run that the tool refuses at \
         the very first RDH (input detection) is skipped. \
         Non-trivial: >= 5 managed threads in the reference run."
            .into()
    }
    fn make(&self, seed: u64, case: u64, _tier: Tier) -> Trial {
        let mut rng = Rng::new(seed);
        let mode_i = [2usize, 3, 4, 1][(case % 4) as usize];
        let stave = mode_i == 4;
        if (case / 4) % 8 == 7 {
            if let Some(t) = isolate_from_sample_file(&mut rng, mode_i) {
                return t;
            }
        }
        let mut cfg = GenCfg::swarm(&mut rng, stave);
        cfg.n_links = rng.range(2, 8) as usize;
        // two FEE IDs on one link number: legal where validation is per FEE ID
        cfg.share_link_ids = stave && rng.chance(1, 2);
        // staves of one layer whose numbers differ in one bit (a filter mask slip selects both)
        cfg.alias_staves = rng.chance(1, 2);
        // 1 in 4 (dispatch by FEE ID): FEE IDs that differ from another one of the input in a reserved bit only
        cfg.reserved_bit_twin = stave && rng.chance(1, 4);
        // more staves than an 8-bit index can tell apart (one case of the quick tier, 1 in 1000 otherwise):
        // 257..300 FEE IDs, each with its own validator
        let many_staves = stave && match _tier {
            Tier::Quick => case == 1002,
            Tier::Thorough => case % 4000 == 1002,
        };
        if many_staves {
            cfg.n_links = rng.range(257, 300) as usize;
            cfg.share_link_ids = true;
            cfg.alias_staves = false;
            cfg.hbfs = (1, 2);
            cfg.data_pages = (1, 1);
            cfg.triggers = (1, 1);
            cfg.max_hits = 1;
        }
        let mut st = gen_conforming(&cfg, &mut rng);
        let mut label = CHECK_MODES[mode_i].join(" ");
        if cfg.share_link_ids {
            label.push_str(" shared-link-ids");
        }
        if cfg.reserved_bit_twin {
            label.push_str(" reserved-bit-twin");
        }
        if many_staves {
            label.push_str(" more-than-256-staves");
        }
        // 1 in 3 (dispatch by link): link numbers from the whole 8-bit range instead of the usual 0..11 and 15
        if !stave && rng.chance(1, 3) {
            let mut used: Vec<u8> = st.links.iter().map(|l| l.link_id).collect();
            for i in 0..st.links.len() {
                if rng.chance(2, 3) {
                    let l = loop {
                        let l = rng.range(12, 255) as u8;
                        if !used.contains(&l) {
                            break l;
                        }
                    };
                    used.push(l);
                    st.links[i].link_id = l;
                    for p in st.links[i].packets.iter_mut() {
                        p.rdh.link_id = l;
                    }
                }
            }
            label.push_str(" link-numbers-0..255");
        }
        let nf = if rng.chance(1, 4) { 0 } else { rng.range(1, 4) };
        for _ in 0..nf {
            let li = rng.usize_below(st.links.len());
            let f = link_fault(&mut st, li, &mut rng);
            label = format!("{label} {f}");
        }
        let m1 = *rng.pick(&[itsgen::gen::Merge::Random, itsgen::gen::Merge::RoundRobin, itsgen::gen::Merge::Contiguous]);
        st.remerge(m1, &mut rng);
        let reference_bytes = st.bytes();
        let parts = s(CHECK_MODES[mode_i]);
        let mk = |input: Vec<u8>, extra: &[String], rng: &mut Rng| -> ExecSpec {
            let mut p = parts.clone();
            p.extend(extra.iter().cloned());
            let im = pick_input_mode(rng);
            let mut sp = specgen::spec(im, &p, input);
            if rng.chance(4, 5) {
                swarm_schedule(&mut sp, rng, 300 + st.total_packets() as u64 * 12);
            }
            sp
        };
        let mut runs: Vec<(IsoRole, ExecSpec)> = vec![(IsoRole::Reference, mk(reference_bytes.clone(), &[], &mut rng))];
        // another merge
        let mut st2 = st.clone();
        let m2 = loop {
            let m = *rng.pick(&[itsgen::gen::Merge::Random, itsgen::gen::Merge::RoundRobin, itsgen::gen::Merge::Contiguous]);
            if m != m1 || m == itsgen::gen::Merge::Random {
                break m;
            }
        };
        st2.remerge(m2, &mut rng);
        runs.push((IsoRole::OtherMerge, mk(st2.bytes(), &[], &mut rng)));
        // one link: extracted, filtered, sequential (preferably one whose stave number differs from
        // another link's in a single bit, selected with the stave filter)
        let mut li = rng.usize_below(st.links.len());
        let mut force_stave_filter = false;
        {
            let aliased: Vec<usize> = (0..st.links.len())
                .filter(|&i| {
                    st.links.iter().enumerate().any(|(j, l)| {
                        let (a, b) = (st.links[i].fee_id, l.fee_id);
                        j != i && (a >> 12) & 7 == (b >> 12) & 7 && ((a ^ b) & 0x3F).count_ones() == 1
                    })
                })
                .collect();
            if !aliased.is_empty() && rng.chance(2, 3) {
                li = aliased[rng.usize_below(aliased.len())];
                force_stave_filter = true;
            }
        }
        let g: u16 = if stave { st.links[li].fee_id } else { st.links[li].link_id as u16 };
        let extracted = st.extract_link(li).bytes();
        if !extracted.is_empty() {
            runs.push((IsoRole::Extracted(g), mk(extracted.clone(), &[], &mut rng)));
            let link_shared = st.links.iter().filter(|l| l.link_id == st.links[li].link_id).count() > 1;
            let f = match rng.below(3) {
                _ if force_stave_filter => Filter::Stave(st.links[li].fee_id),
                // (a link number shared by several FEE IDs, stave mode: the link filter selects them all, each
                // still has its own validator)
                0 if !link_shared || stave => Filter::Link(st.links[li].link_id),
                1 => Filter::Fee(st.links[li].fee_id),
                _ => Filter::Stave(st.links[li].fee_id),
            };
            runs.push((IsoRole::Filtered(g), mk(reference_bytes.clone(), &f.args(), &mut rng)));
            let mut seq = mk(extracted, &[], &mut rng);
            seq.seq_pass = true;
            seq.policy = crate::exec::PolicySpec::Canonical;
            seq.cap_limit = None;
            runs.push((IsoRole::Sequential(g), seq));
        }
        // extra size-preserving fault on another link, same merge
        if st.links.len() >= 2 {
            let a = rng.usize_below(st.links.len());
            let mut st3 = st.clone();
            let cands: Vec<usize> =
                (0..st3.links[a].packets.len()).filter(|&p| !st3.links[a].packets[p].words.is_empty()).collect();
            if !cands.is_empty() {
                let p = cands[rng.usize_below(cands.len())];
                let p = if rng.chance(1, 3) { 0 } else { p };
                let pk = &mut st3.links[a].packets[p];
                let wi = rng.usize_below(pk.words.len().max(1));
                match rng.below(3) {
                    0 if !pk.words.is_empty() => {
                        let bit = rng.usize_below(80);
                        pk.words[wi].word[bit / 8] ^= 1 << (bit % 8);
                    }
                    1 if !pk.words.is_empty() => {
                        pk.words[wi].word[9] = *rng.pick(&[0x00u8, 0x29, 0xE0, 0xE4, 0xE8, 0xF0, 0x9A]);
                    }
                    // (fields that leave the packet with its link / FEE ID: the packet must stay A's)
                    _ => rdh_identity_edit(&mut pk.rdh, &mut rng, false),
                }
                let ga: u16 = if stave { st3.links[a].fee_id } else { st3.links[a].link_id as u16 };
                runs.push((IsoRole::CorruptedOther(ga), mk(st3.bytes(), &[], &mut rng)));
            }
        }
        Trial::Isolate { runs, by_fee: stave, label }
    }
}

// ------------------------------------------------------------------------------------------------
// C13
// ------------------------------------------------------------------------------------------------
pub struct Alpide;

fn legal_lane_ids(barrel: itsgen::gen::Barrel, rng: &mut Rng) -> Vec<u8> {
    use itsgen::gen::Barrel;
    match barrel {
        Barrel::Inner => {
            let g = rng.below(3) as u8;
            (0..3).map(|i| itsgen::words::ib_lane_id(g * 3 + i)).collect()
        }
        Barrel::Middle => {
            if rng.chance(1, 2) {
                vec![0x43, 0x44, 0x45, 0x46, 0x48, 0x49, 0x4A, 0x4B]
            } else {
                vec![0x53, 0x54, 0x55, 0x56, 0x58, 0x59, 0x5A, 0x5B]
            }
        }
        Barrel::Outer => {
            if rng.chance(1, 2) {
                (0x40..=0x46).chain(0x48..=0x4E).collect()
            } else {
                (0x50..=0x56).chain(0x58..=0x5E).collect()
            }
        }
    }
}

fn all_lane_ids(barrel: itsgen::gen::Barrel) -> Vec<u8> {
    match barrel {
        itsgen::gen::Barrel::Inner => (0x20..=0x28).collect(),
        _ => (0x40..=0x46).chain(0x48..=0x4E).chain(0x50..=0x56).chain(0x58..=0x5E).collect(),
    }
}

/// A frame plan: mostly legal frames, some with exactly one broken rule, optionally one lane that
/// announces a fatal state and is silent afterwards.
fn frame_plan(barrel: itsgen::gen::Barrel, n: usize, rng: &mut Rng) -> (Vec<itsgen::gen::FrameSpec>, Vec<String>) {
    use itsgen::alpide::{Chip, LaneFrame, FATAL_APES};
    use itsgen::gen::{Barrel, FrameSpec};
    let base_lanes = legal_lane_ids(barrel, rng);
    let mut fatal_lanes: Vec<u8> = Vec::new(); // lane ids that went fatal
    // (early: only the first few frames of a plan are emitted, and the frames AFTER the announcement are
    // the ones that show whether the lane set was reduced correctly)
    let fatal_at = if rng.chance(1, 3) { Some(rng.usize_below(n.clamp(1, 4))) } else { None };
    // (half of the announcements: a second one, one or two frames later, by another lane)
    let fatal_at2 = match fatal_at {
        Some(k) if rng.chance(1, 2) => Some(k + 1 + rng.usize_below(2)),
        _ => None,
    };
    let mut plan = Vec::new();
    let mut kinds = Vec::new();
    for k in 0..n {
        // (bunch-counter byte 0x00 in 1 frame of 6: a byte that looks like padding)
        let bc = if rng.chance(1, 6) { 0 } else { rng.below(256) as u8 };
        let mut lanes: Vec<u8> = base_lanes.iter().copied().filter(|l| !fatal_lanes.contains(l)).collect();
        let mut kind = "legal";
        let mk_chips = |lane_id: u8, bc: u8, rng: &mut Rng| -> Vec<Chip> {
            match barrel {
                Barrel::Inner => vec![Chip {
                    id: itsgen::words::lane_of_id(lane_id),
                    bc,
                    empty: rng.chance(1, 4),
                    flags: rng.below(16) as u8,
                }],
                _ => {
                    let n = rng.range(1, 7) as u8;
                    let base = if rng.chance(1, 2) { 0 } else { 8 };
                    (0..n).map(|i| Chip { id: base + i, bc, empty: rng.chance(1, 4), flags: rng.below(16) as u8 }).collect()
                }
            }
        };
        let breaks = rng.chance(2, 5);
        let choice = rng.below(10);
        if breaks {
            match choice {
                0 if lanes.len() > 1 => {
                    let i = rng.usize_below(lanes.len());
                    lanes.remove(i);
                    kind = "lane_missing";
                }
                1 => {
                    let extra: Vec<u8> = all_lane_ids(barrel).into_iter().filter(|l| !lanes.contains(l)).collect();
                    if !extra.is_empty() {
                        lanes.push(*rng.pick(&extra));
                        kind = "lane_extra";
                    }
                }
                2 if barrel == Barrel::Inner => {
                    // right count, wrong group: replace one lane by a lane of another group
                    let i = rng.usize_below(lanes.len());
                    let cur: Vec<u8> = lanes.iter().map(|l| itsgen::words::lane_of_id(*l)).collect();
                    let g = cur[0] / 3;
                    let other: Vec<u8> = (0..9u8).filter(|x| x / 3 != g).collect();
                    lanes[i] = itsgen::words::ib_lane_id(*rng.pick(&other));
                    kind = "inner_group";
                }
                9 => {
                    lanes.clear();
                    kind = "empty_frame";
                }
                _ => {}
            }
        }
        let mut lfs: Vec<LaneFrame> = lanes
            .iter()
            .map(|&lane_id| LaneFrame { lane_id, chips: mk_chips(lane_id, bc, rng), fatal_ape: None })
            .collect();
        if breaks && kind == "legal" && !lfs.is_empty() {
            let li = rng.usize_below(lfs.len());
            match choice {
                3 | 4 => {
                    // one chip's bunch counter differs (needs >= 2 chips) / one lane's differs
                    if lfs[li].chips.len() >= 2 && choice == 3 {
                        let ci = rng.usize_below(lfs[li].chips.len());
                        lfs[li].chips[ci].bc = bc.wrapping_add(1 + rng.below(200) as u8);
                        kind = "chip_bc";
                    } else if lfs.len() >= 2 {
                        let nb = bc.wrapping_add(1 + rng.below(200) as u8);
                        for c in lfs[li].chips.iter_mut() {
                            c.bc = nb;
                        }
                        kind = "lane_bc";
                    }
                }
                5 if barrel == Barrel::Inner => {
                    lfs[li].chips[0].id = (lfs[li].chips[0].id + 1 + rng.below(7) as u8) % 9;
                    if lfs[li].chips[0].id == itsgen::words::lane_of_id(lfs[li].lane_id) {
                        lfs[li].chips[0].id = (lfs[li].chips[0].id + 1) % 9;
                    }
                    kind = "inner_chip_id";
                }
                6 if barrel == Barrel::Inner => {
                    let mut c = lfs[li].chips[0].clone();
                    c.id = (c.id + 1) % 9;
                    lfs[li].chips.push(c);
                    kind = "inner_two_chips";
                }
                7 => {
                    let c = lfs[li].chips[0].clone();
                    lfs[li].chips.push(c);
                    kind = "duplicate_chip";
                }
                8 => {
                    lfs[li].chips.clear();
                    kind = "lane_without_chip";
                }
                _ => {}
            }
        }
        if (Some(k) == fatal_at || Some(k) == fatal_at2) && lfs.len() >= 2 {
            // one lane - or, in the first announcing frame, two or three lanes at once - announce a fatal state
            // (at least one lane of the stave stays alive)
            let many = if Some(k) == fatal_at { *rng.pick(&[1usize, 1, 2, 2, 3]) } else { 1 };
            let many = many.min(lfs.len() - 1);
            let mut idx: Vec<usize> = (0..lfs.len()).collect();
            for _ in 0..many {
                let li = idx.remove(rng.usize_below(idx.len()));
                // (at least one lane of the stave's own set stays alive)
                let alive = base_lanes.iter().filter(|l| !fatal_lanes.contains(l) && **l != lfs[li].lane_id).count();
                if alive == 0 {
                    continue;
                }
                lfs[li].fatal_ape = Some(*rng.pick(&FATAL_APES));
                fatal_lanes.push(lfs[li].lane_id);
            }
            kind = if many > 1 { "lanes_announce_fatal_in_one_frame" } else { "lane_announces_fatal" };
        }
        kinds.push(kind.to_string());
        plan.push(FrameSpec { lanes: lfs, hit_seed: rng.next_u64() });
    }
    (plan, kinds)
}

impl Scenario for Alpide {
    fn property(&self) -> &'static str {
        "C13"
    }
    fn n_cases(&self, tier: Tier) -> u64 {
        match tier {
            Tier::Quick => 2_000,
            Tier::Thorough => 100_000,
        }
    }
    fn rule(&self) -> String {
        "case = one stave (inner / middle / outer) carrying 1..10 readout frames from the independent ALPIDE encoder: \
         legal frames and frames with exactly one broken rule (lane missing / extra, wrong inner group, one chip's or \
         one lane's bunch counter differs, inner chip ID != lane, two chips on an inner lane, chip ID twice in a lane, \
         lane without any chip, frame without data words), optionally lanes announcing a fatal APE and silent \
         afterwards (one, two or three lanes in the same frame, in half of the cases another lane a frame or two later; \
         later frames expect that many lanes fewer); chips with chosen IDs, bunch counters, readout flags, \
         empty-frame and header/trailer forms. The lanes' byte streams (region headers, short/long hits, busy on/off, \
         padding: the pixel-hit content) are cut into 9-byte data words, the lanes' words merged by a seeded \
         interleaving and the frames split over pages by continuation; no-data TDHs precede some frames. Each case is \
         generated TWICE from the same chips with different pixel-hit content / word interleaving and run under \
         seeded schedules with `check all its-stave -S`. Oracle: per frame, the messages with codes E72/E73 (lanes), \
         E74/E75 (lane errors, with E9003/E9004/E9005) and E701 at the frame's start offset are exactly those the \
         encoder's ground truth (itsgen::alpide_model) prescribes, nothing for a legal frame, no frame-level message \
         elsewhere; the announcing frame of a fatal lane is not judged. Both variants give the same verdicts and \
         alpide_stats equal to the counters computed from the chips' trailer flags. Non-trivial: >= 1 frame and \
         >= 4 threads."
            .into()
    }
    fn make(&self, seed: u64, case: u64, _tier: Tier) -> Trial {
        use itsgen::gen::Barrel;
        let mut rng = Rng::new(seed);
        let barrel = [Barrel::Inner, Barrel::Middle, Barrel::Outer][(case % 3) as usize];
        let want = rng.range(1, 10) as usize;
        let (plan, kinds) = frame_plan(barrel, 40, &mut rng);
        let gen_seed = rng.next_u64();
        let mut runs = Vec::new();
        let mut label = format!("{barrel:?}");
        let mut flags: Vec<u64> = Vec::new();
        for variant in 0..2u64 {
            let mut cfg = GenCfg::swarm(&mut Rng::new(gen_seed), true);
            cfg.n_links = 1;
            cfg.barrels = Some(vec![barrel]);
            cfg.stave_mode = true;
            cfg.hbfs = (1, 2);
            cfg.data_pages = (1, 3);
            cfg.triggers = (1, 3);
            cfg.p_no_data = 200;
            cfg.max_hits = if variant == 0 { 2 } else { 5 };
            // same chips, other pixel-hit content
            cfg.frame_plan = plan
                .iter()
                .map(|f| itsgen::gen::FrameSpec { lanes: f.lanes.clone(), hit_seed: f.hit_seed ^ (variant * 0x9E37_79B9) })
                .collect();
            let _ = want;
            let st = gen_conforming(&cfg, &mut Rng::new(gen_seed));
            let frames = itsgen::faults::scan_frames(&st, 0);
            let used = frames.len().min(plan.len());
            let truth = itsgen::alpide_model::judge(barrel, &plan[..used]);
            let run_flags = itsgen::alpide_model::flags_truth(&plan[..used]).to_vec();
            if variant == 0 {
                flags = run_flags.clone();
                for k in kinds.iter().take(used) {
                    if k != "legal" && !label.contains(k.as_str()) {
                        label = format!("{label} {k}");
                    }
                }
            }
            let offs = st.offsets();
            let inner = barrel == Barrel::Inner;
            let fexp: Vec<crate::trials::FrameExpect> = frames
                .iter()
                .take(used)
                .zip(truth.iter())
                .map(|(f, t)| {
                    let k = st.order.iter().position(|&(l, p)| l == 0 && p == f.start.0).unwrap();
                    let off = offs[k] + st.links[0].packets[f.start.0].word_offset(f.start.1);
                    let mut sub = Vec::new();
                    if t.e9003 {
                        sub.push("E9003".to_string());
                    }
                    if t.e9004 {
                        sub.push("E9004".to_string());
                    }
                    if t.e9005 {
                        sub.push("E9005".to_string());
                    }
                    crate::trials::FrameExpect {
                        offset: off as u64,
                        lanes_code: if t.lanes_rule { Some(if inner { "E72" } else { "E73" }.to_string()) } else { None },
                        lane_err_code: if t.lane_errors { Some(if inner { "E74" } else { "E75" }.to_string()) } else { None },
                        sub_codes: sub,
                        empty: t.empty,
                        dont_care: t.dont_care,
                    }
                })
                .collect();
            let ext = "json";
            let mut parts = s(CHECK_MODES[4]);
            parts.extend(s(&["-S", "@STATS@", "-D", ext]));
            // the second variant is muted in half of the cases: same verdicts, read from the statistics file
            if variant == 1 && rng.chance(1, 2) {
                parts.push("-m".into());
            }
            let im = pick_input_mode(&mut rng);
            let mut spec = specgen::spec(im, &parts, st.bytes());
            if rng.chance(3, 4) {
                swarm_schedule(&mut spec, &mut rng, 300 + st.total_packets() as u64 * 20);
            }
            runs.push(crate::trials::AlpideRun { spec, frames: fexp, flags: run_flags });
        }
        Trial::Alpide { runs, flags, label }
    }
}

// ------------------------------------------------------------------------------------------------
// C15
// ------------------------------------------------------------------------------------------------
pub struct StatsRt;

impl Scenario for StatsRt {
    fn property(&self) -> &'static str {
        "C15"
    }
    fn level(&self) -> &'static str {
        "fault_enumeration"
    }
    fn n_cases(&self, tier: Tier) -> u64 {
        match tier {
            Tier::Quick => 400,
            Tier::Thorough => 12_000,
        }
    }
    fn rule(&self) -> String {
        "case = a history of runs on one input: run A (`check <mode> ... -S file -D json|toml`, own schedule) writes \
         the statistics file; run B (same input and options plus `-i file`, a DIFFERENT schedule seed, capacity cap and \
         benign I/O faults) must accept it: no mismatch message, same exit status. Then the stored file is corrupted: \
         EVERY leaf value that the run also collects is perturbed one at a time (numbers +-1, strings altered, system \
         ID replaced by another valid one, absent optional values filled in) - complete enumeration per file in 2 of \
         3 cases, every 7th leaf otherwise - and the input is changed (one more packet); each time run B must report \
         the mismatch and exit with the -E status. Inputs: conforming, corrupted (1..6 faults; messages with quotes, \
         brackets and newlines), multi-link; all five check modes; -m on/off; JSON and TOML. `executions` counts all \
         runs incl. one per perturbed leaf; `fault_kinds_fired.stored_statistic_perturbed` counts the leaves. \
         Non-trivial: >= 3 threads in run A; distinct: (input hash, trace hash)."
            .into()
    }
    fn make(&self, seed: u64, case: u64, _tier: Tier) -> Trial {
        let mut rng = Rng::new(seed);
        let mode_i = (case % 5) as usize;
        let mut cfg = GenCfg::swarm(&mut rng, mode_i == 4);
        cfg.n_links = rng.range(1, 5) as usize;
        cfg.hbfs = (1, 2);
        let mut st = gen_conforming(&cfg, &mut rng);
        let mut label = CHECK_MODES[mode_i].join(" ");
        if rng.chance(2, 3) {
            for _ in 0..rng.range(1, 6) {
                loop {
                    let mut probe = st.clone();
                    let f = corrupt::corrupt_stream(&mut probe, &mut rng);
                    if f != "size_inconsistent" {
                        st = probe;
                        break;
                    }
                }
            }
            label.push_str(" corrupted");
        } else {
            label.push_str(" conforming");
        }
        if mode_i == 4 && st.links.len() >= 2 && rng.chance(1, 2) {
            // frame errors on two staves: two validator threads report them, in either order
            for li in 0..2 {
                let cands: Vec<(usize, usize)> = st.links[li]
                    .packets
                    .iter()
                    .enumerate()
                    .flat_map(|(pi, pk)| {
                        pk.words.iter().enumerate().filter(|(_, w)| w.kind == itsgen::words::Kind::Data).map(move |(wi, _)| (pi, wi))
                    })
                    .collect();
                if !cands.is_empty() {
                    let (pi, wi) = cands[rng.usize_below(cands.len())];
                    let bit = rng.usize_below(72);
                    st.links[li].packets[pi].words[wi].word[bit / 8] ^= 1 << (bit % 8);
                }
            }
            label.push_str(" two-stave-frame-errors");
        }
        let ext = if rng.chance(1, 2) { "json" } else { "toml" };
        label = format!("{label} {ext}");
        let exit_code = rng.range(2, 255) as i32;
        let mut parts = s(CHECK_MODES[mode_i]);
        // the round trip is not a matter of the check modes: 1 in 6 through a view (statistics are written
        // and compared without the finalisation that the report triggers)
        let view_mode = mode_i != 4 && rng.chance(1, 6);
        if view_mode {
            let v = VIEW_MODES[rng.usize_below(3)];
            parts = s(v);
            if rng.chance(1, 2) {
                parts.push("-d".into());
            }
            label = format!("{} (view) {}", v.join(" "), label);
        }
        parts.extend(s(&["-E", &exit_code.to_string()]));
        if rng.chance(1, 3) {
            parts.push("-m".into());
            label.push_str(" -m");
        }
        // a filter in a third of the cases; in half of those the stream starts with a link of another
        // detector system (the input statistics are taken before the filter, the ITS statistics after it)
        if st.links.len() >= 2 && rng.chance(1, 3) {
            let first_link = st.order.first().map(|&(l, _)| l).unwrap_or(0);
            let others: Vec<usize> = (0..st.links.len()).filter(|&l| l != first_link).collect();
            let sel = others[rng.usize_below(others.len())];
            if rng.chance(1, 2) {
                for pk in st.links[first_link].packets.iter_mut() {
                    pk.rdh.system_id = 19; // TST
                }
                label.push_str(" first-link-other-system");
            }
            let f = match rng.below(3) {
                0 if st.links.iter().filter(|l| l.link_id == st.links[sel].link_id).count() == 1 => {
                    Filter::Link(st.links[sel].link_id)
                }
                1 => Filter::Fee(st.links[sel].fee_id),
                _ => Filter::Stave(st.links[sel].fee_id),
            };
            parts.extend(f.args());
            label.push_str(" filter");
        }
        // 1 in 5: expectations about the whole run that do not hold (custom checks file, the same for both runs):
        // their messages and codes are part of the statistics that must round-trip
        let custom = if rng.chance(1, 5) {
            parts.extend(s(&["-c", "@CHECKS@"]));
            label.push_str(" run-expectations-fail");
            Some(match rng.below(3) {
                0 => "cdps = 100000\n".to_string(),
                1 => "triggers_pht = 100000\n".to_string(),
                _ => "cdps = 100000\ntriggers_pht = 100000\n".to_string(),
            })
        } else {
            None
        };
        let im = pick_input_mode(&mut rng);
        let mut pa = parts.clone();
        pa.extend(s(&["-S", "@STATS@", "-D", ext]));
        let mut a = specgen::spec(im.clone(), &pa, st.bytes());
        a.custom_checks_toml = custom.clone();
        a.stats_ext = ext.to_string();
        if rng.chance(1, 4) {
            // the statistics file of an earlier run is still there: it must be replaced
            a.stale_outputs = Some(rng.next_u64());
        }
        let mut pb = parts.clone();
        pb.extend(s(&["-i", "@INSTATS@"]));
        let mut b = specgen::spec(im, &pb, st.bytes());
        b.custom_checks_toml = custom;
        b.stats_ext = ext.to_string();
        let est = 300 + st.total_packets() as u64 * 12;
        swarm_schedule(&mut a, &mut rng, est);
        swarm_schedule(&mut b, &mut rng, est);
        if rng.chance(1, 2) {
            benign_io(&mut b, &mut rng);
        }
        Trial::StatsRt { a, b, exit_code, enumerate_leaves: case % 3 != 2, label }
    }
}

// ------------------------------------------------------------------------------------------------
// C20
// ------------------------------------------------------------------------------------------------
pub struct Custom;

impl Scenario for Custom {
    fn property(&self) -> &'static str {
        "C20"
    }
    fn n_cases(&self, tier: Tier) -> u64 {
        match tier {
            Tier::Quick => 2_400,
            Tier::Thorough => 120_000,
        }
    }
    fn rule(&self) -> String {
        "four kinds of case, each on conforming streams with ground truth from the generator / independent walker and \
         under seeded schedules (E9001/E9002 are computed by the collector after all producers have disconnected). \
         (1) counts: every subset of {cdps, triggers_pht, rdh_version} with values equal to, one below and one above \
         the truth (packets on the wire, packets with the PhT bit, header version), keys absent or commented out; \
         oracle: [E9001]/[E9002] iff configured != observed, [E10] header-ID at every RDH iff the version differs, \
         nothing else, exit status -E iff anything is expected. (2) a run without -c and a run with an all-default \
         file (empty / comments only) give identical stderr, stdout, statistics and exit status. (3) outer-barrel chip \
         count / chip orders on planned frames (chip lists 0..6, 8..14, shorter, shifted, permuted): a lane-error \
         message with [E9004]/[E9005] at the frame start iff a lane's chip list violates the configured count / \
         orders. (4) trigger period P with `check all its-stave -s <stave> -p P`: internal-trigger TDH sequences \
         generated at period P' (equal or different, incl. wrap-around across orbits, with 0-30 % jitter and \
         interleaved non-internal triggers); [E45] exactly at the TDHs whose BC distance mod 3564 to the previous \
         internal-trigger TDH differs from P. Non-trivial: >= 4 threads."
            .into()
    }
    fn make(&self, seed: u64, case: u64, _tier: Tier) -> Trial {
        let mut rng = Rng::new(seed);
        let exit_code = rng.range(2, 255) as i32;
        match case % 4 {
            0 => {
                let mode_i = rng.usize_below(4);
                let cfg = GenCfg::swarm(&mut rng, false);
                let st = gen_conforming(&cfg, &mut rng);
                let input = st.bytes();
                let w = walk(&input);
                let truth_cdps = w.pkts.len() as i64;
                let truth_pht = w.pkts.iter().filter(|p| (p.rdh.trigger_type >> 4) & 1 == 1).count() as i64;
                let truth_ver = w.pkts.first().map(|p| p.rdh.version).unwrap_or(7) as i64;
                let mut toml = String::new();
                let mut exp = crate::trials::CustomExpect::default();
                let around = |t: i64, rng: &mut Rng| -> i64 {
                    match rng.below(3) {
                        0 => t,
                        1 if t > 0 => t - 1,
                        _ => t + 1,
                    }
                };
                let subset = rng.below(8);
                if subset & 1 != 0 {
                    let v = around(truth_cdps, &mut rng);
                    toml.push_str(&format!("cdps = {v}\n"));
                    exp.e9001 = v != truth_cdps;
                } else if rng.chance(1, 2) {
                    toml.push_str("# cdps = 20\n");
                }
                if subset & 2 != 0 {
                    let v = around(truth_pht, &mut rng);
                    toml.push_str(&format!("triggers_pht = {v}\n"));
                    exp.e9002 = v != truth_pht;
                } else if rng.chance(1, 2) {
                    toml.push_str("#triggers_pht = 0\n");
                }
                if subset & 4 != 0 {
                    let v = if rng.chance(1, 2) { truth_ver } else { 13 - truth_ver };
                    toml.push_str(&format!("rdh_version = {v}\n"));
                    if v != truth_ver {
                        exp.e10_offsets = w.pkts.iter().map(|p| p.off as u64).collect();
                    }
                }
                let mut parts = s(CHECK_MODES[mode_i]);
                parts.extend(s(&["-c", "@CHECKS@", "-E", &exit_code.to_string()]));
                let im = pick_input_mode(&mut rng);
                let mut spec = specgen::spec(im, &parts, input);
                spec.custom_checks_toml = Some(toml);
                if rng.chance(4, 5) {
                    swarm_schedule(&mut spec, &mut rng, 300 + st.total_packets() as u64 * 12);
                }
                Trial::Custom { spec, expect: exp, exit_code, label: format!("counts | {} | subset {subset}", CHECK_MODES[mode_i].join(" ")) }
            }
            1 => {
                let mode_i = rng.usize_below(5);
                let cfg = GenCfg::swarm(&mut rng, mode_i == 4);
                let mut st = gen_conforming(&cfg, &mut rng);
                if rng.chance(1, 2) {
                    for _ in 0..rng.range(1, 3) {
                        loop {
                            let mut probe = st.clone();
                            let f = corrupt::corrupt_stream(&mut probe, &mut rng);
                            if f != "size_inconsistent" {
                                st = probe;
                                break;
                            }
                        }
                    }
                }
                let mut parts = s(CHECK_MODES[mode_i]);
                parts.extend(s(&["-E", &exit_code.to_string(), "-S", "@STATS@", "-D", "json"]));
                let im = pick_input_mode(&mut rng);
                let a = specgen::spec(im.clone(), &parts, st.bytes());
                parts.extend(s(&["-c", "@CHECKS@"]));
                let mut b = specgen::spec(im, &parts, st.bytes());
                b.custom_checks_toml = Some(
                    (*rng.pick(&["", "# nothing configured\n", "# cdps = 10\n#triggers_pht = 0\n# rdh_version = 7\n", "\n\n"]))
                        .to_string(),
                );
                Trial::SameOutputs { a, b, label: format!("absent vs all-default file | {}", CHECK_MODES[mode_i].join(" ")) }
            }
            2 => {
                use itsgen::alpide::{Chip, LaneFrame};
                use itsgen::gen::{Barrel, FrameSpec};
                let barrel = if rng.chance(1, 2) { Barrel::Middle } else { Barrel::Outer };
                let lanes = legal_lane_ids(barrel, &mut rng);
                let lists: [&[u8]; 7] = [
                    &[0, 1, 2, 3, 4, 5, 6],
                    &[8, 9, 10, 11, 12, 13, 14],
                    &[0, 1, 2, 3, 4, 5],
                    &[1, 2, 3, 4, 5, 6, 7],
                    &[6, 5, 4, 3, 2, 1, 0],
                    &[0, 1, 2, 3, 4, 5, 6, 7],
                    &[8, 9, 10, 11, 12, 14, 13],
                ];
                let cfg_count: Option<usize> = if rng.chance(2, 3) { Some(*rng.pick(&[7usize, 6, 8])) } else { None };
                let cfg_orders: Option<Vec<Vec<u8>>> = if rng.chance(2, 3) {
                    Some(match rng.below(3) {
                        0 => vec![lists[0].to_vec(), lists[1].to_vec()],
                        1 => vec![lists[0].to_vec()],
                        _ => vec![lists[1].to_vec(), lists[3].to_vec(), lists[2].to_vec()],
                    })
                } else {
                    None
                };
                let mut plan = Vec::new();
                let mut verdicts: Vec<(bool, bool)> = Vec::new(); // (E9004 expected, E9005 expected)
                for _ in 0..40 {
                    let bc = rng.below(256) as u8;
                    let mut e4 = false;
                    let mut e5 = false;
                    let deviates = rng.chance(1, 3);
                    let lfs: Vec<LaneFrame> = lanes
                        .iter()
                        .map(|&lane_id| {
                            let list: &[u8] = if deviates && rng.chance(1, 4) { lists[rng.usize_below(7)] } else { lists[rng.usize_below(2)] };
                            let count_ok = cfg_count.map_or(true, |c| list.len() == c);
                            if !count_ok {
                                e4 = true;
                            } else if let Some(o) = &cfg_orders {
                                if !o.iter().any(|x| x.as_slice() == list) {
                                    e5 = true;
                                }
                            }
                            LaneFrame {
                                lane_id,
                                chips: list.iter().map(|&id| Chip { id, bc, empty: rng.chance(1, 4), flags: rng.below(16) as u8 }).collect(),
                                fatal_ape: None,
                            }
                        })
                        .collect();
                    verdicts.push((e4, e5));
                    plan.push(FrameSpec { lanes: lfs, hit_seed: rng.next_u64() });
                }
                let mut cfg = GenCfg::swarm(&mut rng, true);
                cfg.n_links = 1;
                cfg.barrels = Some(vec![barrel]);
                cfg.hbfs = (1, 2);
                cfg.data_pages = (1, 3);
                cfg.triggers = (1, 3);
                cfg.frame_plan = plan;
                let st = gen_conforming(&cfg, &mut rng);
                let frames = itsgen::faults::scan_frames(&st, 0);
                let offs = st.offsets();
                let mut exp = crate::trials::CustomExpect::default();
                for (f, (e4, e5)) in frames.iter().zip(verdicts.iter()) {
                    let k = st.order.iter().position(|&(l, p)| l == 0 && p == f.start.0).unwrap();
                    let off = (offs[k] + st.links[0].packets[f.start.0].word_offset(f.start.1)) as u64;
                    if *e4 {
                        exp.frame_codes.push((off, "E9004".into()));
                    }
                    if *e5 {
                        exp.frame_codes.push((off, "E9005".into()));
                    }
                    if !*e4 && !*e5 {
                        exp.clean_frames.push(off);
                    }
                }
                let mut toml = String::new();
                if let Some(c) = cfg_count {
                    toml.push_str(&format!("chip_count_ob = {c}\n"));
                }
                if let Some(o) = &cfg_orders {
                    toml.push_str(&format!("chip_orders_ob = {:?}\n", o));
                }
                let mut parts = s(CHECK_MODES[4]);
                parts.extend(s(&["-c", "@CHECKS@", "-E", &exit_code.to_string()]));
                let im = pick_input_mode(&mut rng);
                let mut spec = specgen::spec(im, &parts, st.bytes());
                spec.custom_checks_toml = Some(toml);
                if rng.chance(4, 5) {
                    swarm_schedule(&mut spec, &mut rng, 300 + st.total_packets() as u64 * 20);
                }
                Trial::Custom { spec, expect: exp, exit_code, label: format!("chip count/order | {barrel:?}") }
            }
            _ => {
                // (period 0 = one internal trigger per orbit at a fixed bunch crossing: a legal configuration)
                let p_gen = *rng.pick(&[0u16, 1, 2, 89, 198, 1000, 1782, 3563]);
                // (a configured period of a whole orbit or more can never be met: every pair is reported)
                let p_cfg = match rng.below(8) {
                    0..=3 => p_gen,
                    4 => *rng.pick(&[3564u16, 7128, 65535]),
                    5 => 3564 + p_gen,
                    _ => *rng.pick(&[0u16, 1, 88, 198, 199, 3563, 1782]),
                };
                let mut cfg = GenCfg::swarm(&mut rng, true);
                cfg.n_links = rng.range(1, 3) as usize;
                cfg.triggers = (1, 1);
                // (split frames: the TDH that continues a frame on the next page is not a new trigger)
                cfg.p_split = *rng.pick(&[0u64, 0, 400]);
                cfg.p_internal = *rng.pick(&[1000u64, 700]);
                cfg.trigger_period = if rng.chance(5, 6) { Some(p_gen) } else { None };
                cfg.period_jitter = *rng.pick(&[0u64, 0, 100, 300]);
                cfg.hbfs = (2, 8);
                cfg.data_pages = (1, 4);
                let st = gen_conforming(&cfg, &mut rng);
                let li = rng.usize_below(st.links.len());
                let fee = st.links[li].fee_id;
                // reference model: per selected stave, BC distance between consecutive internal-trigger TDHs
                let offs = st.offsets();
                let mut exp = crate::trials::CustomExpect::default();
                let mut prev_internal: Option<u16> = None;
                for (pi, pk) in st.links[li].packets.iter().enumerate() {
                    let k = st.order.iter().position(|&(l, p)| l == li && p == pi).unwrap();
                    for (wi, w) in pk.words.iter().enumerate() {
                        if w.kind != itsgen::words::Kind::Tdh {
                            continue;
                        }
                        let t = itsgen::words::Tdh::from_word(&w.word);
                        if !t.continuation && t.internal {
                            if let Some(pb) = prev_internal {
                                let d = (t.bc as i32 - pb as i32).rem_euclid(3564) as u16;
                                if d != p_cfg {
                                    exp.e45_offsets.push((offs[k] + pk.word_offset(wi)) as u64);
                                }
                            }
                        }
                        if t.internal {
                            prev_internal = Some(t.bc);
                        }
                    }
                }
                let mut parts = s(CHECK_MODES[4]);
                parts.extend(Filter::Stave(fee).args());
                parts.extend(s(&["-p", &p_cfg.to_string(), "-E", &exit_code.to_string()]));
                let im = pick_input_mode(&mut rng);
                let mut spec = specgen::spec(im, &parts, st.bytes());
                if rng.chance(4, 5) {
                    swarm_schedule(&mut spec, &mut rng, 300 + st.total_packets() as u64 * 20);
                }
                Trial::Custom {
                    spec,
                    expect: exp,
                    exit_code,
                    label: format!("trigger period | {}", if p_cfg == p_gen { "configured == generated" } else { "configured != generated" }),
                }
            }
        }
    }
}
