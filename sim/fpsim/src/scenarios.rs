//! Scenario registry: one scenario per claimed property.

use crate::exec::{ExecSpec, InputMode};
use crate::framework::{Scenario, Tier};
use crate::specgen::{self, benign_io, pick_input_mode, swarm_schedule, CHECK_MODES, VIEW_MODES};
use crate::trials::Trial;
use fpsim_rt::rng::Rng;
use itsgen::corrupt;
use itsgen::gen::{gen_arbitrary, gen_conforming, GenCfg, Stream};
use itsgen::walker::Filter;

pub fn registry() -> Vec<Box<dyn Scenario>> {
    vec![Box::new(Conform), Box::new(Chaos), Box::new(Sched)]
}

pub fn find(prop: &str) -> Option<Box<dyn Scenario>> {
    registry().into_iter().find(|s| s.property() == prop)
}

fn s(parts: &[&str]) -> Vec<String> {
    parts.iter().map(|x| x.to_string()).collect()
}

/// A filter that selects something present in the stream (or, rarely, nothing).
pub fn pick_filter(st: &Stream, rng: &mut Rng) -> Filter {
    if st.links.is_empty() {
        return Filter::None;
    }
    let l = &st.links[rng.usize_below(st.links.len())];
    match rng.below(8) {
        0 => Filter::Link(l.link_id),
        1 => Filter::Fee(l.fee_id),
        2 => Filter::Stave(l.fee_id),
        3 => Filter::Link(rng.below(256) as u8),
        _ => Filter::None,
    }
}

// ------------------------------------------------------------------------------------------------
// C01
// ------------------------------------------------------------------------------------------------
pub struct Conform;

impl Scenario for Conform {
    fn property(&self) -> &'static str {
        "C01"
    }
    fn n_cases(&self, tier: Tier) -> u64 {
        match tier {
            Tier::Quick => 6_000,
            Tier::Thorough => 400_000,
        }
    }
    fn rule(&self) -> String {
        "case = conforming multi-link stream from the upstream model (swarm: 1-12 links, merge order, \
         barrels, formats 0/2, RDH v6/v7, pages, continuation, no-data TDHs, internal/physics triggers, \
         CDWs, padding, status bits, ALPIDE content in stave mode; some cases force 99/100/101/200 packets) \
         x one of the five check modes x {plain,-m,-E n,-S} x {file,pipe} x seeded schedule policy x \
         queue-capacity cap x benign I/O faults. Non-trivial: >= 4 managed threads ran (reader, analysis, \
         >= 1 validator, collector). Distinct: (input hash, schedule trace hash)."
            .into()
    }
    fn assumptions(&self) -> Vec<String> {
        vec![
            "the generator's notion of 'conforming' is DESIGN.md appendix A (doc/checks_list.md + behaviour pinned by the repository's tests)".into(),
            "threads are switched only at channel operations, spawn, join and thread exit".into(),
        ]
    }
    fn make(&self, seed: u64, case: u64, _tier: Tier) -> Trial {
        let mut rng = Rng::new(seed);
        let mode_i = (case % 5) as usize;
        let stave = mode_i == 4;
        let mut cfg = GenCfg::swarm(&mut rng, stave);
        // batch-boundary cases: force an exact packet count on the wire
        let force_count = if rng.chance(1, 12) { Some(*rng.pick(&[99usize, 100, 101, 200, 201])) } else { None };
        if force_count.is_some() {
            cfg.n_links = rng.range(1, 4) as usize;
            cfg.hbfs = (40, 60);
            cfg.data_pages = (1, 2);
            cfg.data_words = (0, 4);
            cfg.triggers = (1, 2);
        }
        let mut st = gen_conforming(&cfg, &mut rng);
        if let Some(n) = force_count {
            // cut whole trailing HBFs per link until the count fits, then trim by dropping links' tails
            trim_to_packets(&mut st, n, &mut rng, cfg.merge);
        }
        let input = st.bytes();
        let im = pick_input_mode(&mut rng);
        let mut parts: Vec<String> = s(CHECK_MODES[mode_i]);
        let mut label = CHECK_MODES[mode_i].join(" ");
        match rng.below(6) {
            0 => {
                parts.push("-m".into());
                label.push_str(" -m");
            }
            1 | 2 => {
                parts.extend(s(&["-E", &rng.range(1, 255).to_string()]));
                label.push_str(" -E");
            }
            _ => {}
        }
        let mut stats_ext = "json".to_string();
        if rng.chance(1, 3) {
            stats_ext = if rng.chance(1, 2) { "json".into() } else { "toml".into() };
            parts.extend(s(&["-S", "@STATS@", "-D", &stats_ext]));
        }
        if rng.chance(1, 6) {
            let f = pick_filter(&st, &mut rng);
            if f != Filter::None {
                parts.extend(f.args());
                label.push_str(" filter");
            }
        }
        let mut spec = specgen::spec(im, &parts, input);
        spec.stats_ext = stats_ext;
        let est = 200 + st.total_packets() as u64 * 12;
        if rng.chance(4, 5) {
            swarm_schedule(&mut spec, &mut rng, est);
        }
        if rng.chance(1, 2) {
            benign_io(&mut spec, &mut rng);
        }
        if force_count.is_some() {
            label.push_str(" batch-boundary");
        }
        Trial::Conform { spec, label }
    }
}

/// Trim a conforming stream to exactly `n` packets, keeping every link's HBFs complete where
/// possible: whole trailing HBFs are dropped; if the count still cannot be met exactly, the stream
/// is left at the closest count >= 2 per link (the label still says batch-boundary only when the
/// count is met by the caller's choice).
fn trim_to_packets(st: &mut Stream, n: usize, rng: &mut Rng, merge: itsgen::gen::Merge) {
    loop {
        let total: usize = st.links.iter().map(|l| l.packets.len()).sum();
        if total <= n {
            break;
        }
        // drop the last HBF of the link with the most packets, if that does not undershoot
        let li = (0..st.links.len()).max_by_key(|&i| st.links[i].packets.len()).unwrap();
        let last_hbf = st.links[li].packets.last().map(|p| p.hbf).unwrap_or(0);
        let hbf_len = st.links[li].packets.iter().filter(|p| p.hbf == last_hbf).count();
        if total - hbf_len < n || last_hbf == 0 {
            break;
        }
        st.links[li].packets.retain(|p| p.hbf != last_hbf);
    }
    st.remerge(merge, rng);
}

// ------------------------------------------------------------------------------------------------
// C04
// ------------------------------------------------------------------------------------------------
pub struct Chaos;

fn random_checks_toml(rng: &mut Rng) -> String {
    let mut t = String::new();
    if rng.chance(1, 2) {
        t.push_str(&format!("cdps = {}\n", rng.below(300)));
    }
    if rng.chance(1, 2) {
        t.push_str(&format!("triggers_pht = {}\n", rng.below(50)));
    }
    if rng.chance(1, 3) {
        t.push_str("chip_orders_ob = [[0, 1, 2, 3, 4, 5, 6], [8, 9, 10, 11, 12, 13, 14]]\n");
    }
    if rng.chance(1, 3) {
        t.push_str(&format!("chip_count_ob = {}\n", rng.range(1, 7)));
    }
    if rng.chance(1, 3) {
        t.push_str(&format!("rdh_version = {}\n", rng.range(6, 7)));
    }
    t
}

/// A valid command line (mode + options) for arbitrary input; returns (parts, label, needs).
pub fn random_valid_cmdline(st: Option<&Stream>, rng: &mut Rng, spec_fields: &mut CmdExtras) -> (Vec<String>, String) {
    let mut parts: Vec<String> = Vec::new();
    let label;
    let filter = match st {
        Some(st) => pick_filter(st, rng),
        None => match rng.below(6) {
            0 => Filter::Link(rng.below(16) as u8),
            1 => Filter::Fee(rng.next_u32() as u16),
            2 => Filter::Stave(itsgen::rdh::fee_id(rng.below(7) as u8, rng.below(48) as u8, 0)),
            _ => Filter::None,
        },
    };
    match rng.below(10) {
        0..=5 => {
            let m = rng.usize_below(5);
            parts.extend(s(CHECK_MODES[m]));
            label = CHECK_MODES[m].join(" ");
            parts.extend(filter.args());
            if m == 4 && matches!(filter, Filter::Stave(_)) && rng.chance(1, 2) {
                parts.extend(s(&["-p", &rng.range(1, 3563).to_string()]));
            }
            if rng.chance(1, 4) {
                spec_fields.checks_toml = Some(random_checks_toml(rng));
                parts.extend(s(&["-c", "@CHECKS@"]));
            }
        }
        6..=7 => {
            let m = rng.usize_below(3);
            parts.extend(s(VIEW_MODES[m]));
            label = VIEW_MODES[m].join(" ");
            parts.extend(filter.args());
            if rng.chance(1, 2) {
                parts.push("-d".into());
            }
        }
        _ => {
            // filtered writing needs a filter
            let f = if filter == Filter::None { Filter::Link(rng.below(12) as u8) } else { filter };
            parts.extend(f.args());
            if rng.chance(1, 2) {
                parts.extend(s(&["-o", "@OUT@"]));
                label = "write file".to_string();
            } else {
                label = "write stdout".to_string();
            }
        }
    }
    if rng.chance(1, 4) {
        parts.push("-m".into());
    }
    if rng.chance(1, 4) {
        parts.extend(s(&["-e", &rng.range(1, 30).to_string()]));
    }
    if rng.chance(1, 3) {
        let n = rng.range(1, 255);
        parts.extend(s(&["-E", &n.to_string()]));
        spec_fields.exit_code = Some(n as i32);
    }
    if rng.chance(1, 6) {
        parts.extend(s(&["-w", *rng.pick(&["10", "11", "99", "4", "70 10 991"])]));
    }
    if rng.chance(1, 4) {
        let ext = if rng.chance(1, 2) { "json" } else { "toml" };
        spec_fields.stats_ext = ext.to_string();
        let dest = if rng.chance(1, 4) { "stdout" } else { "@STATS@" };
        parts.extend(s(&["-S", dest, "-D", ext]));
    }
    if rng.chance(1, 10) {
        parts.extend(s(&["-v", &rng.range(0, 3).to_string()]));
    }
    (parts, label)
}

#[derive(Default)]
pub struct CmdExtras {
    pub checks_toml: Option<String>,
    pub exit_code: Option<i32>,
    pub stats_ext: String,
}

impl Scenario for Chaos {
    fn property(&self) -> &'static str {
        "C04"
    }
    fn n_cases(&self, tier: Tier) -> u64 {
        match tier {
            Tier::Quick => 8_000,
            Tier::Thorough => 600_000,
        }
    }
    fn rule(&self) -> String {
        "case = input (pure random bytes of 0..64 kB incl. < 8 bytes | well-framed arbitrary stream with byte-level \
         corruption | conforming stream hit by 1..4 structure-aware corruption faults: RDH bit flips / extreme field \
         values, word bit flips / ID changes / insert / delete / duplicate / swap, packet loss / duplication / swap / \
         cross-link splice, size fields inconsistent, excess padding, plus byte-level flips / truncation / inserts) x \
         a valid command line (5 check modes, 3 views, filtered writing to file/stdout; filters, -m, -e, -E, -w, -S, \
         -c custom checks, -p) x {file, pipe} x seeded schedule x capacity cap x read faults (short, EINTR, EIO). \
         Oracle: no panic in any managed thread, no deadlock, step budget, wall-clock limit, no fatal signal, exit \
         status in {0, 1, N}. Non-trivial: >= 2 managed threads ran. Distinct: (input hash, trace hash)."
            .into()
    }
    fn assumptions(&self) -> Vec<String> {
        vec![
            "panic=unwind build of the same sources: a panic is reported where the shipped panic=abort build would abort".into(),
            "allocation failure and AddressSanitizer runs are out of scope of this check (DESIGN.md §5)".into(),
        ]
    }
    fn make(&self, seed: u64, _case: u64, _tier: Tier) -> Trial {
        let mut rng = Rng::new(seed);
        let mut extras = CmdExtras { stats_ext: "json".into(), ..Default::default() };
        let kind = rng.below(10);
        let mut label;
        let (input, st): (Vec<u8>, Option<Stream>) = match kind {
            0 => {
                let len = match rng.below(5) {
                    0 => rng.below(9),
                    1 => rng.below(70),
                    2 => rng.below(300),
                    3 => rng.below(5000),
                    _ => rng.below(65536),
                } as usize;
                let mut b = vec![0u8; len];
                rng.fill(&mut b);
                if rng.chance(1, 2) && len >= 8 {
                    // make the first RDH0 look sane so that processing gets past the initial check
                    b[0] = 7;
                    b[1] = 0x40;
                    b[2] = 0x0A;
                    b[3] = 0x50;
                    b[4] = 0;
                    b[5] = 0x20;
                    b[6] = 0;
                    b[7] = 0;
                }
                label = "random-bytes".to_string();
                (b, None)
            }
            1 | 2 => {
                let n = rng.range(0, 150) as usize;
                let maxp = *rng.pick(&[0usize, 100, 2000, 10000]);
                let nl = rng.range(1, 6) as usize;
                let mut b = gen_arbitrary(&mut rng, n, maxp, nl);
                let k = rng.below(3);
                for _ in 0..k {
                    corrupt::corrupt_bytes(&mut b, &mut rng);
                }
                label = "arbitrary-framed".to_string();
                (b, None)
            }
            _ => {
                let stave = rng.chance(1, 3);
                let cfg = GenCfg::swarm(&mut rng, stave);
                let mut st = gen_conforming(&cfg, &mut rng);
                let k = rng.range(1, 4);
                label = "corrupted".to_string();
                for _ in 0..k {
                    let f = corrupt::corrupt_stream(&mut st, &mut rng);
                    label = format!("corrupted:{f}");
                }
                let mut b = st.bytes();
                if rng.chance(1, 4) {
                    corrupt::corrupt_bytes(&mut b, &mut rng);
                }
                (b, Some(st))
            }
        };
        let (parts, mode_label) = random_valid_cmdline(st.as_ref(), &mut rng, &mut extras);
        label = format!("{label} | {mode_label}");
        let im = pick_input_mode(&mut rng);
        let mut spec: ExecSpec = specgen::spec(im, &parts, input);
        spec.custom_checks_toml = extras.checks_toml.clone();
        spec.stats_ext = extras.stats_ext.clone();
        let est = 300 + (spec.input.len() as u64 / 64).min(20_000);
        if rng.chance(3, 4) {
            swarm_schedule(&mut spec, &mut rng, est);
        }
        if rng.chance(1, 2) {
            benign_io(&mut spec, &mut rng);
        }
        if rng.chance(1, 10) && !spec.input.is_empty() {
            spec.io.eio_at = Some(rng.below(spec.input.len() as u64 + 1));
        }
        spec.timeout_ms = 30_000;
        let mut allowed = vec![0, 1];
        if let Some(n) = extras.exit_code {
            allowed.push(n);
        }
        Trial::Orderly { spec, allowed_status: allowed, label }
    }
}

// ------------------------------------------------------------------------------------------------
// C05
// ------------------------------------------------------------------------------------------------
pub struct Sched;

impl Scenario for Sched {
    fn property(&self) -> &'static str {
        "C05"
    }
    fn n_cases(&self, tier: Tier) -> u64 {
        match tier {
            Tier::Quick => 700,
            Tier::Thorough => 30_000,
        }
    }
    fn rule(&self) -> String {
        "case = one (input, command line): multi-link stream (3-12 links), conforming or carrying 1..6 corruption \
         faults on several links (so that several errors share an offset and the total exceeds 20 in part of the \
         cases), modes check all / its / its-stave and views, with and without -m, statistics to JSON/TOML; one \
         canonical-schedule reference run, then N runs (quick 8, thorough 24) under random / PCT / starvation \
         policies, capped queue capacities and benign I/O faults. Oracle: exit status, non-WARN stderr messages in \
         order, statistics file bytes, stdout without the `Processed in` line, output identical to the reference; \
         WARN messages equal as a multiset. Cases whose reference run reports a fatal input error are excluded by \
         the statement. Non-trivial: >= 4 managed threads. Distinct: (input hash, reference trace hash); the number \
         of distinct interleavings and of distinct collector arrival orders over all runs is reported separately."
            .into()
    }
    fn assumptions(&self) -> Vec<String> {
        vec![
            "all cross-thread communication is by channel operations, joins and two flags read at loop heads; switching threads at these points generates every distinguishable behaviour".into(),
        ]
    }
    fn make(&self, seed: u64, case: u64, tier: Tier) -> Trial {
        let mut rng = Rng::new(seed);
        let view = case % 7 == 6;
        let mode_i = if view { 0 } else { 2 + (case % 3) as usize };
        let stave = mode_i == 4;
        let mut cfg = GenCfg::swarm(&mut rng, stave);
        cfg.n_links = rng.range(3, 12) as usize;
        if rng.chance(1, 3) {
            cfg.hbfs = (3, 8);
        }
        let mut st = gen_conforming(&cfg, &mut rng);
        let n_faults = if rng.chance(1, 5) { 0 } else { rng.range(1, 6) };
        let mut label = String::new();
        for _ in 0..n_faults {
            // size-preserving and framing-preserving faults only: a fatal framing error is excluded
            let f = loop {
                let mut probe = st.clone();
                let f = corrupt::corrupt_stream(&mut probe, &mut rng);
                if f != "size_inconsistent" {
                    st = probe;
                    break f;
                }
            };
            label = format!("{label}{f},");
        }
        let input = st.bytes();
        let mut parts: Vec<String> = if view {
            let v = VIEW_MODES[rng.usize_below(3)];
            label = format!("{} | {label}", v.join(" "));
            let mut p = s(v);
            if rng.chance(1, 2) {
                p.push("-d".into());
            }
            p
        } else {
            label = format!("{} | {label}", CHECK_MODES[mode_i].join(" "));
            s(CHECK_MODES[mode_i])
        };
        if rng.chance(1, 3) {
            parts.push("-m".into());
            label.push_str(" -m");
        }
        let mut stats_ext = "json".to_string();
        if rng.chance(2, 3) {
            stats_ext = if rng.chance(1, 2) { "json".into() } else { "toml".into() };
            parts.extend(s(&["-S", "@STATS@", "-D", &stats_ext]));
        }
        if rng.chance(1, 3) {
            parts.extend(s(&["-E", &rng.range(1, 255).to_string()]));
        }
        let im = pick_input_mode(&mut rng);
        let mut base = specgen::spec(im, &parts, input);
        base.stats_ext = stats_ext;
        let nvar = match tier {
            Tier::Quick => 8,
            Tier::Thorough => 24,
        };
        let mut variants = Vec::new();
        for _ in 0..nvar {
            let mut v = base.clone();
            swarm_schedule(&mut v, &mut rng, 2000);
            if rng.chance(1, 2) {
                benign_io(&mut v, &mut rng);
            }
            variants.push(v);
        }
        let _ = InputMode::File;
        Trial::Sched { base, variants, label }
    }
}
