//! One execution of fastPASTA under the simulator, in a forked child of the (single-threaded)
//! shard process. The child parses the command line with the real clap parser, installs the real
//! configuration and logger, runs `sim_main` as managed thread T0 under the scheduler with the run's
//! I/O plan, and ships back exit status, captured streams, output files and the scheduler outcome.
//! Fork-per-execution gives every execution a fresh process-global state (CONFIG, logger, std's
//! stdin/stdout buffers) and turns aborts, fatal signals and hangs into observable results.

use crate::b64;
use fpsim_rt::io::IoPlan;
use fpsim_rt::sched::{Outcome, Policy, RunConfig};
use serde::{Deserialize, Serialize};
use std::collections::BTreeMap;
use std::path::{Path, PathBuf};
use std::time::{Duration, Instant};

#[derive(Serialize, Deserialize, Clone, Debug, PartialEq)]
pub enum InputMode {
    File,
    Pipe,
}

#[derive(Serialize, Deserialize, Clone, Debug, PartialEq)]
pub enum PolicySpec {
    Canonical,
    Random { p_permille: u32 },
    Pct { d: u32 },
    Starve { victim: u32, from: u64, window: u64 },
    Replay,
}

impl PolicySpec {
    pub fn to_policy(&self) -> Policy {
        match self.clone() {
            PolicySpec::Canonical => Policy::Canonical,
            PolicySpec::Random { p_permille } => Policy::Random { p_permille },
            PolicySpec::Pct { d } => Policy::Pct { d },
            PolicySpec::Starve { victim, from, window } => Policy::Starve { victim, from, window },
            PolicySpec::Replay => Policy::Replay,
        }
    }
    pub fn name(&self) -> String {
        self.to_policy().name()
    }
}

#[derive(Serialize, Deserialize, Clone, Debug, Default, PartialEq)]
pub struct IoSpec {
    pub short_reads: Option<(u64, usize)>,
    pub eintr_every: Option<u32>,
    pub eio_at: Option<u64>,
    pub eof_at: Option<u64>,
    pub stdout_fail_at: Option<u64>,
    pub stdout_errno: i32,
    pub stdout_short_writes: Option<(u64, usize)>,
    pub stdout_eintr_every: Option<u32>,
    /// Benign: forward jumps of the monotonic clock (seed).
    #[serde(default)]
    pub clock_jumps: Option<u64>,
    /// Disruptive: the stop event happens when this many input bytes were delivered (pipe).
    #[serde(default)]
    pub stop_at_input_byte: Option<u64>,
    /// Disruptive: the input stalls after this many bytes (pipe: the read beyond never returns); once everybody
    /// waits, the stop event arrives.
    #[serde(default)]
    pub stall_at: Option<u64>,
}

impl IoSpec {
    pub fn is_benign(&self) -> bool {
        self.eio_at.is_none() && self.eof_at.is_none() && self.stdout_fail_at.is_none() && self.stop_at_input_byte.is_none() && self.stall_at.is_none()
    }
    pub fn any(&self) -> bool {
        *self != IoSpec::default()
    }
}

/// Everything that determines one execution, as literal artefacts (this is what a replay file holds).
#[derive(Serialize, Deserialize, Clone, Debug)]
pub struct ExecSpec {
    /// Arguments after the program name. Placeholders: @IN@ input file, @OUT@ `-o` file,
    /// @STATS@ statistics output file (extension from `stats_ext`), @CHECKS@ custom checks TOML,
    /// @INSTATS@ input statistics file (extension from `input_stats_ext`).
    pub argv: Vec<String>,
    pub input_mode: InputMode,
    #[serde(with = "b64")]
    pub input: Vec<u8>,
    pub custom_checks_toml: Option<String>,
    pub input_stats: Option<String>,
    pub input_stats_ext: String,
    /// stored-byte fault: the byte at this offset (modulo the length) of the input statistics file becomes 0xFF
    #[serde(default)]
    pub input_stats_bad_byte_at: Option<usize>,
    pub stats_ext: String,
    pub policy: PolicySpec,
    pub sched_seed: u64,
    pub cap_limit: Option<usize>,
    pub step_budget: u64,
    /// Step budget counted from the injected stop event (None: only `step_budget` applies).
    #[serde(default)]
    pub budget_after_stop: Option<u64>,
    pub expected_steps: u64,
    pub stop_at_step: Option<u64>,
    pub decisions: Vec<u16>,
    pub io: IoSpec,
    pub timeout_ms: u64,
    /// Instead of the pipeline: one single-threaded pass of the input's packets (all of one link)
    /// through one real `LinkValidator::run` on the main thread (C06).
    #[serde(default)]
    pub seq_pass: bool,
    /// Stored state left by an earlier run: the `-o` file and the statistics file already exist with
    /// unrelated content (drawn from this seed) when the run starts. They must be replaced, not extended.
    #[serde(default)]
    pub stale_outputs: Option<u64>,
    /// Pipe personality only: `input` is delivered this many times in a row (streams of several GiB).
    #[serde(default)]
    pub input_repeat: Option<u64>,
}

impl ExecSpec {
    pub fn new(argv: &[&str], input_mode: InputMode, input: Vec<u8>) -> Self {
        ExecSpec {
            argv: argv.iter().map(|s| s.to_string()).collect(),
            input_mode,
            input,
            custom_checks_toml: None,
            input_stats: None,
            input_stats_ext: "json".into(),
            input_stats_bad_byte_at: None,
            stats_ext: "json".into(),
            policy: PolicySpec::Canonical,
            sched_seed: 0,
            cap_limit: None,
            step_budget: 2_000_000,
            budget_after_stop: None,
            expected_steps: 2000,
            stop_at_step: None,
            decisions: Vec::new(),
            io: IoSpec::default(),
            timeout_ms: 60_000,
            seq_pass: false,
            stale_outputs: None,
            input_repeat: None,
        }
    }
    pub fn cmdline(&self) -> String {
        self.argv.join(" ")
    }
}

#[derive(Serialize, Deserialize, Clone, Debug, PartialEq)]
pub enum EndKind {
    /// The simulated program reached its end (normally or by a caught panic/abort of the run).
    Completed,
    /// The child process died from a signal (abort, segfault, illegal instruction, ...).
    Signaled(i32),
    /// The child did not finish within the wall-clock limit (compute-only loop or lost control).
    Timeout,
    /// The harness failed (not attributable to the code under test).
    Harness(String),
}

#[derive(Serialize, Deserialize, Clone, Debug, Default)]
pub struct PanicRec {
    pub thread: String,
    pub location: String,
    pub message: String,
}

/// Largest capacity of a bounded data queue taken as sane (the program's own maximum is 16384).
pub const MAX_SANE_CAPACITY_REQUEST: u64 = 1 << 20;

#[derive(Serialize, Deserialize, Clone, Debug, Default)]
pub struct OutcomeRec {
    pub steps: u64,
    pub switches: u64,
    pub decisions: Vec<u16>,
    pub trace_hash: u64,
    pub threads: usize,
    pub thread_names: Vec<String>,
    pub panics: Vec<PanicRec>,
    pub deadlock: Option<String>,
    pub budget_exceeded: bool,
    pub leaked_threads: Vec<String>,
    pub unmanaged_ops: u64,
    pub stop_injected_at: Option<u64>,
    pub probes: BTreeMap<String, u64>,
    pub arrival_hash: u64,
    pub arrival_msgs: u64,
    pub max_runnable: usize,
    pub aborted: bool,
    #[serde(default)]
    pub backlog_at_stop: Option<(u64, u64)>,
    #[serde(default)]
    pub max_capacity_request: u64,
    #[serde(default)]
    pub alive_at_main_return: Vec<String>,
}

impl From<Outcome> for OutcomeRec {
    fn from(o: Outcome) -> Self {
        OutcomeRec {
            steps: o.steps,
            switches: o.switches,
            decisions: o.decisions,
            trace_hash: o.trace_hash,
            threads: o.threads,
            thread_names: o.thread_names,
            panics: o
                .panics
                .into_iter()
                .map(|p| PanicRec { thread: p.thread, location: p.location, message: p.message })
                .collect(),
            deadlock: o.deadlock,
            budget_exceeded: o.budget_exceeded,
            leaked_threads: o.leaked_threads,
            unmanaged_ops: o.unmanaged_ops,
            stop_injected_at: o.stop_injected_at,
            probes: o.probes.into_iter().map(|(k, v)| (k.to_string(), v)).collect(),
            arrival_hash: o.arrival_hash,
            arrival_msgs: o.arrival_msgs,
            max_runnable: o.max_runnable,
            aborted: o.aborted,
            backlog_at_stop: o.backlog_at_stop,
            max_capacity_request: o.max_capacity_request,
            alive_at_main_return: o.alive_at_main_return,
        }
    }
}

#[derive(Serialize, Deserialize, Clone, Debug, Default)]
pub struct IoRec {
    pub input_reads: u64,
    pub input_bytes: u64,
    pub short_reads: u64,
    pub read_eintr: u64,
    pub read_eio: u64,
    pub read_eof_injected: u64,
    pub stdout_writes: u64,
    pub stdout_short_writes: u64,
    pub stdout_eintr: u64,
    pub stdout_failed_writes: u64,
    pub stderr_writes: u64,
    /// Input bytes read after the injected stop event (None: none injected).
    #[serde(default)]
    pub input_bytes_after_stop: Option<u64>,
    /// Failed writes to stdout by the thread whose write failed first.
    #[serde(default)]
    pub stdout_failed_writes_first_thread: u64,
    /// Forward jumps of the monotonic clock that were injected.
    #[serde(default)]
    pub clock_jumps: u64,
    #[serde(default)]
    pub seeded_entropy_reads: u64,
}

#[derive(Serialize, Deserialize, Clone, Debug)]
pub struct ExecResult {
    pub end: EndKind,
    /// Exit status the program would return (0..=255); -1 when it never got that far.
    pub status: i32,
    /// The command line was rejected before processing started (clap or validate_args).
    pub config_rejected: bool,
    #[serde(with = "b64")]
    pub stdout: Vec<u8>,
    #[serde(with = "b64")]
    pub stderr: Vec<u8>,
    #[serde(with = "b64::opt")]
    pub out_file: Option<Vec<u8>>,
    #[serde(with = "b64::opt")]
    pub stats_file: Option<Vec<u8>>,
    pub outcome: OutcomeRec,
    pub io: IoRec,
    pub wall_us: u64,
    /// Files the run left in its current directory.
    #[serde(default)]
    pub cwd_files: Vec<String>,
}

impl ExecResult {
    pub fn stderr_str(&self) -> String {
        String::from_utf8_lossy(&self.stderr).into_owned()
    }
    pub fn stdout_str(&self) -> String {
        String::from_utf8_lossy(&self.stdout).into_owned()
    }
    /// Terminated on its own, without panic, deadlock, budget overrun, leaked threads or crash.
    pub fn orderly(&self) -> bool {
        self.end == EndKind::Completed
            && self.outcome.panics.is_empty()
            && self.outcome.deadlock.is_none()
            && !self.outcome.budget_exceeded
            && self.outcome.max_capacity_request <= MAX_SANE_CAPACITY_REQUEST
            && self.outcome.alive_at_main_return.is_empty()
            && self.outcome.leaked_threads.is_empty()
    }
    /// One-line description of the first disorderly symptom, with a stable "site" for matching.
    pub fn disorder(&self) -> Option<(String, String, String)> {
        // (class, site, message)
        match &self.end {
            EndKind::Signaled(s) => {
                let note = if std::env::var("FPSIM_PHASE").map_or(false, |p| p == "asan") && *s == 6 {
                    "the simulated process was aborted (signal 6) in the AddressSanitizer build: memory error report in the directory named by ASAN_OPTIONS log_path, or an abort() in the code under test"
                } else {
                    "the simulated process was killed by a signal"
                };
                return Some(("crash".into(), format!("signal {s}"), note.to_string()));
            }
            EndKind::Timeout => return Some(("hang".into(), "wall-clock limit".into(), String::new())),
            EndKind::Harness(m) => return Some(("harness".into(), "harness".into(), m.clone())),
            EndKind::Completed => {}
        }
        if let Some(p) = self.outcome.panics.first() {
            return Some(("panic".into(), p.location.clone(), format!("[{}] {}", p.thread, p.message)));
        }
        if let Some(d) = &self.outcome.deadlock {
            return Some(("deadlock".into(), "scheduler".into(), d.clone()));
        }
        if self.outcome.budget_exceeded {
            return Some(("step-budget".into(), "scheduler".into(), format!("{} steps", self.outcome.steps)));
        }
        if self.outcome.max_capacity_request > MAX_SANE_CAPACITY_REQUEST {
            return Some((
                "allocation-size".into(),
                "queue-capacity-request".into(),
                format!(
                    "a bounded data queue of {} slots was requested (crossbeam allocates every slot at creation: with packets of ~100 bytes that is {} MiB before a single packet is sent); the limit taken as sane is 2^20 slots",
                    self.outcome.max_capacity_request,
                    self.outcome.max_capacity_request / 10_000
                ),
            ));
        }
        if !self.outcome.alive_at_main_return.is_empty() {
            return Some((
                "threads-alive-at-exit".into(),
                "main-returned-before-its-workers".into(),
                format!(
                    "the program's main function returned while these threads had not finished (a real process ends there, whatever they were still doing - e.g. flushing an output file): {}",
                    self.outcome.alive_at_main_return.join(", ")
                ),
            ));
        }
        if !self.outcome.leaked_threads.is_empty() {
            return Some((
                "leaked-threads".into(),
                "scheduler".into(),
                self.outcome.leaked_threads.join("; "),
            ));
        }
        None
    }
}

pub struct WorkDir {
    pub dir: PathBuf,
}

impl WorkDir {
    pub fn new(tag: &str) -> WorkDir {
        let base = if Path::new("/dev/shm").is_dir() {
            PathBuf::from("/dev/shm")
        } else {
            std::env::temp_dir()
        };
        let dir = base.join(format!("fpsim-{}-{}", std::process::id(), tag));
        let _ = std::fs::remove_dir_all(&dir);
        std::fs::create_dir_all(&dir).expect("cannot create work dir");
        WorkDir { dir }
    }
    fn p(&self, name: &str) -> PathBuf {
        self.dir.join(name)
    }
}

impl Drop for WorkDir {
    fn drop(&mut self) {
        let _ = std::fs::remove_dir_all(&self.dir);
    }
}

struct Paths {
    input: PathBuf,
    out: PathBuf,
    stats: PathBuf,
    checks: PathBuf,
    instats: PathBuf,
}

fn paths(spec: &ExecSpec, wd: &WorkDir) -> Paths {
    Paths {
        input: wd.p("in.raw"),
        // `@OUT:stdout@`: a destination FILE whose last path component is the word `stdout`
        out: if spec.argv.iter().any(|a| a.contains("@OUT:stdout@")) { wd.p("o/stdout") } else { wd.p("out.raw") },
        stats: wd.p(&format!("stats.{}", spec.stats_ext)),
        checks: wd.p("checks.toml"),
        instats: wd.p(&format!("instats.{}", spec.input_stats_ext)),
    }
}

fn subst(argv: &[String], p: &Paths) -> Vec<String> {
    argv.iter()
        .map(|a| {
            a.replace("@IN@", &p.input.to_string_lossy())
                .replace("@OUT@", &p.out.to_string_lossy())
                .replace("@OUT:stdout@", &p.out.to_string_lossy())
                .replace("@STATS@", &p.stats.to_string_lossy())
                .replace("@CHECKS@", &p.checks.to_string_lossy())
                .replace("@INSTATS@", &p.instats.to_string_lossy())
        })
        .collect()
}

/// Execute `spec` in a forked child. Must be called from a single-threaded process.
pub fn exec(spec: &ExecSpec, wd: &WorkDir) -> ExecResult {
    let t0 = Instant::now();
    let p = paths(spec, wd);
    let _ = std::fs::create_dir_all(wd.p("o"));
    let _ = std::fs::remove_file(wd.p("o/stdout"));
    for f in [&p.input, &p.out, &p.stats, &p.checks, &p.instats] {
        let _ = std::fs::remove_file(f);
    }
    // also remove a stats file with the other extension
    for e in ["json", "toml"] {
        let _ = std::fs::remove_file(wd.p(&format!("stats.{e}")));
        let _ = std::fs::remove_file(wd.p(&format!("instats.{e}")));
    }
    if let Some(seed) = spec.stale_outputs {
        let mut rng = fpsim_rt::rng::Rng::new(seed);
        let mut junk = vec![0u8; 64 + rng.usize_below(4000)];
        rng.fill(&mut junk);
        let _ = std::fs::write(&p.out, &junk);
        // longer than anything the run will write: an overwrite without truncation leaves a tail
        let mut stale = String::from("{\"stale\": true, \"left_by\": \"an earlier run\"}\n");
        while stale.len() < 60_000 {
            stale.push_str("# stale statistics of an earlier, longer run ................................\n");
        }
        let _ = std::fs::write(&p.stats, stale.as_bytes());
    }
    let mut input_id = None;
    if spec.input_mode == InputMode::File && spec.argv.iter().any(|a| a.contains("@IN@")) {
        // file personality: an EOF fault is a shorter file
        let data: &[u8] = match spec.io.eof_at {
            Some(k) if (k as usize) < spec.input.len() => &spec.input[..k as usize],
            _ => &spec.input,
        };
        std::fs::write(&p.input, data).expect("write input");
        use std::os::unix::fs::MetadataExt;
        let md = std::fs::metadata(&p.input).expect("stat input");
        input_id = Some((md.dev(), md.ino()));
    }
    if let Some(t) = &spec.custom_checks_toml {
        std::fs::write(&p.checks, t).expect("write checks");
    }
    if let Some(t) = &spec.input_stats {
        let mut bytes = t.clone().into_bytes();
        if let (Some(k), false) = (spec.input_stats_bad_byte_at, bytes.is_empty()) {
            let n = bytes.len();
            bytes[k % n] = 0xFF;
        }
        std::fs::write(&p.instats, bytes).expect("write instats");
    }
    let argv = subst(&spec.argv, &p);

    let mut fds = [0i32; 2];
    if unsafe { libc::pipe(fds.as_mut_ptr()) } != 0 {
        return harness_err("pipe failed", t0);
    }
    let pid = unsafe { libc::fork() };
    if pid < 0 {
        return harness_err("fork failed", t0);
    }
    if pid == 0 {
        unsafe { libc::close(fds[0]) };
        // the simulated process runs in its own scratch directory: anything it drops into the
        // current directory (the `custom_checks.toml` template of -g) is observable and cleaned up
        let cwd = wd.p("cwd");
        let _ = std::fs::remove_dir_all(&cwd);
        let _ = std::fs::create_dir_all(&cwd);
        let _ = std::env::set_current_dir(&cwd);
        let res = crate::child::child_main(spec, &argv, input_id);
        let bytes = serde_json::to_vec(&res).unwrap_or_default();
        crate::interpose::write_raw_fd(fds[1], &bytes);
        unsafe {
            libc::close(fds[1]);
            libc::_exit(0);
        }
    }
    unsafe { libc::close(fds[1]) };
    // read until EOF with a deadline
    let deadline = t0 + Duration::from_millis(spec.timeout_ms);
    let mut buf: Vec<u8> = Vec::with_capacity(8192);
    let mut timed_out = false;
    loop {
        let now = Instant::now();
        if now >= deadline {
            timed_out = true;
            break;
        }
        let ms = (deadline - now).as_millis().min(1000) as i32;
        let mut pfd = libc::pollfd { fd: fds[0], events: libc::POLLIN, revents: 0 };
        let r = unsafe { libc::poll(&mut pfd, 1, ms) };
        if r < 0 {
            if std::io::Error::last_os_error().kind() == std::io::ErrorKind::Interrupted {
                continue;
            }
            break;
        }
        if r == 0 {
            continue;
        }
        let mut chunk = [0u8; 65536];
        let n = unsafe {
            libc::syscall(libc::SYS_read, fds[0], chunk.as_mut_ptr(), chunk.len()) as isize
        };
        if n < 0 {
            if std::io::Error::last_os_error().kind() == std::io::ErrorKind::Interrupted {
                continue;
            }
            break;
        }
        if n == 0 {
            break;
        }
        buf.extend_from_slice(&chunk[..n as usize]);
    }
    unsafe { libc::close(fds[0]) };
    if timed_out {
        unsafe { libc::kill(pid, libc::SIGKILL) };
    }
    let mut status: i32 = 0;
    loop {
        let r = unsafe { libc::waitpid(pid, &mut status, 0) };
        if r < 0 && std::io::Error::last_os_error().kind() == std::io::ErrorKind::Interrupted {
            continue;
        }
        break;
    }
    let wall_us = t0.elapsed().as_micros() as u64;
    if timed_out {
        return ExecResult { end: EndKind::Timeout, wall_us, ..empty_result() };
    }
    if libc::WIFSIGNALED(status) {
        return ExecResult {
            end: EndKind::Signaled(libc::WTERMSIG(status)),
            wall_us,
            ..empty_result()
        };
    }
    let mut res: ExecResult = match serde_json::from_slice(&buf) {
        Ok(r) => r,
        Err(e) => {
            return ExecResult {
                end: EndKind::Harness(format!(
                    "child exit status {} and unparsable result ({} bytes): {e}",
                    libc::WEXITSTATUS(status),
                    buf.len()
                )),
                wall_us,
                ..empty_result()
            }
        }
    };
    res.out_file = std::fs::read(&p.out).ok();
    res.cwd_files = std::fs::read_dir(wd.p("cwd"))
        .map(|rd| {
            let mut v: Vec<String> = rd.filter_map(|e| e.ok()).map(|e| e.file_name().to_string_lossy().into_owned()).collect();
            v.sort();
            v
        })
        .unwrap_or_default();
    res.stats_file = std::fs::read(&p.stats).ok();
    res.wall_us = wall_us;
    res
}

pub fn empty_result() -> ExecResult {
    ExecResult {
        end: EndKind::Completed,
        status: -1,
        config_rejected: false,
        stdout: Vec::new(),
        stderr: Vec::new(),
        out_file: None,
        stats_file: None,
        outcome: OutcomeRec::default(),
        io: IoRec::default(),
        wall_us: 0,
        cwd_files: Vec::new(),
    }
}

fn harness_err(msg: &str, t0: Instant) -> ExecResult {
    ExecResult {
        end: EndKind::Harness(msg.to_string()),
        wall_us: t0.elapsed().as_micros() as u64,
        ..empty_result()
    }
}

pub fn run_config(spec: &ExecSpec) -> RunConfig {
    RunConfig {
        policy: spec.policy.to_policy(),
        seed: spec.sched_seed,
        cap_limit: spec.cap_limit,
        step_budget: spec.step_budget,
        budget_after_stop: spec.budget_after_stop,
        expected_steps: spec.expected_steps,
        stop_at_step: spec.stop_at_step,
        replay: spec.decisions.clone(),
    }
}

pub fn io_plan(spec: &ExecSpec, input_id: Option<(u64, u64)>) -> IoPlan {
    IoPlan {
        stdin_data: if spec.input_mode == InputMode::Pipe { Some(spec.input.clone()) } else { None },
        stdin_repeat: spec.input_repeat.unwrap_or(1),
        input_file: input_id,
        short_reads: spec.io.short_reads,
        eintr_every: spec.io.eintr_every,
        eio_at: spec.io.eio_at,
        eof_at: if spec.input_mode == InputMode::Pipe { spec.io.eof_at } else { None },
        stdout_fail_at: spec.io.stdout_fail_at,
        stdout_errno: spec.io.stdout_errno,
        stdout_short_writes: spec.io.stdout_short_writes,
        stdout_eintr_every: spec.io.stdout_eintr_every,
        clock_jumps: spec.io.clock_jumps,
        stop_at_input_byte: spec.io.stop_at_input_byte,
        stall_at: spec.io.stall_at,
        // (hash-table seeds of the run's threads: a function of the schedule seed)
        entropy_seed: Some(fpsim_rt::rng::mix(&[spec.sched_seed, 0x656e74726f7079])),
    }
}
