//! C16: exit-status table and error accounting.

use crate::exec::{ExecResult, ExecSpec};
use crate::framework::{case_key, Executor, Fail, TrialOutcome};
use crate::oracle;
use crate::trials::{check_orderly, clip_pub};

/// Error messages shown to the user: ERROR-level log messages other than the fatal banner and the
/// init failure line.
pub fn shown_errors(r: &ExecResult) -> Vec<oracle::ErrMsg> {
    let msgs = oracle::log_messages(&r.stderr);
    // the fatal banner `FATAL: <text>\nShutting down...`; the same text is printed once more at the
    // end of the error list: that repetition is the fatal, not a counted error message
    let fatal_texts: Vec<String> = msgs
        .iter()
        .filter(|m| m.level == "ERROR")
        .filter_map(|m| m.text.strip_prefix("FATAL: "))
        .map(|t| t.trim_end_matches("Shutting down...").trim_end().to_string())
        .collect();
    msgs.into_iter()
        .filter(|m| m.level == "ERROR")
        .filter(|m| !m.text.starts_with("FATAL") && !m.text.starts_with("Init processing failed"))
        .filter(|m| !fatal_texts.iter().any(|f| f == m.text.trim_end()))
        // the log line that explains a fatal (`Failed to parse system ID: Unknown system ID 254`, followed by
        // `FATAL: Failed to parse system ID`) is part of that fatal as well
        .filter(|m| !fatal_texts.iter().any(|f| !f.is_empty() && m.text.starts_with(&format!("{f}:"))))
        // (two threads can raise that fatal - `FATAL: Failed to parse system ID` or `FATAL: Unknown system ID n` -
        // whichever comes first is shown; the explaining log line is the same)
        .filter(|m| !m.text.starts_with("Failed to parse system ID"))
        .map(|m| oracle::parse_err_text(&m.text))
        .collect()
}

fn init_failed(r: &ExecResult) -> bool {
    oracle::log_messages(&r.stderr)
        .iter()
        .any(|m| m.level == "ERROR" && m.text.starts_with("Init processing failed"))
}

fn fatal_reported(r: &ExecResult) -> bool {
    oracle::log_messages(&r.stderr)
        .iter()
        .any(|m| m.level == "ERROR" && (m.text.starts_with("FATAL") || m.text.starts_with("Init processing failed")))
}

fn totals(r: &ExecResult, spec: &ExecSpec) -> (Option<u64>, Option<u64>) {
    let file = r
        .stats_file
        .as_ref()
        .and_then(|b| oracle::parse_stats(b, &spec.stats_ext))
        .and_then(|v| oracle::stats_u64(&v, &["error_stats", "total_errors"]));
    (file, oracle::report_total_errors(&r.stdout))
}

pub fn run_exit_contract(
    ex: &mut Executor,
    specs: &[ExecSpec],
    kinds: &[String],
    class: &str,
    exit_code: Option<i32>,
    label: &str,
) -> TrialOutcome {
    let mut out = TrialOutcome { labels: vec![label.to_string()], ..Default::default() };
    let fail = |site: &str, msg: String| Some(Fail::new("exit-contract", site, msg));
    let r0 = ex.exec(&specs[0]);
    out.key = case_key(&specs[0].input, &r0);
    out.nontrivial = true;
    if let Some(f) = check_orderly(&r0) {
        out.fail = Some(f);
        return out;
    }
    let shown0 = shown_errors(&r0);
    let fatal0 = fatal_reported(&r0);
    let n = exit_code;
    // The reader visits every RDH of the chain whatever the mode and the filter: where the chain walk of the input
    // arrives at an offset-to-next outside the accepted range (and every packet before it has memory size ==
    // offset, so that the tool's reading and the walk agree), the fatal input error must be reported
    let chain_breaks_at: Option<usize> = {
        let w = itsgen::walker::walk(&specs[0].input);
        match w.end {
            itsgen::walker::WalkEnd::BadOffset(p) if p > 0 && w.pkts.iter().all(|k| k.rdh.memory_size == k.rdh.offset_next) => Some(p),
            _ => None,
        }
    };
    if let Some(p) = chain_breaks_at {
        if !fatal0 && !init_failed(&r0) && !specs[0].argv.iter().any(|a| a.contains("does-not-exist")) {
            out.fail = fail(
                "fatal-not-reported",
                format!("the RDH at {p:#X} has an offset-to-next outside the accepted range: no fatal input error is reported [cmd: {}]", specs[0].cmdline()),
            );
            return out;
        }
    }
    let cmd0 = specs[0].cmdline();
    // --- exit status table
    // a corruption that hit the very first RDH0 makes the input unrecognisable
    let class = if init_failed(&r0) && matches!(class, "errors" | "fatal-midstream") { "non-alice" } else { class };
    let want: Vec<i32> = match class {
        // opened, recognised, processed, nothing reported
        "clean" => vec![0],
        // errors reported (no fatal): N if configured, else 0
        "errors" => {
            if shown0.is_empty() && !fatal0 {
                // the corruption happened to be benign for this mode: behaves like clean
                vec![0]
            } else {
                vec![n.unwrap_or(0)]
            }
        }
        // a fatal input error in mid-stream was reported: N if configured (else 0 or 1)
        "fatal-midstream" => {
            if fatal0 || !shown0.is_empty() {
                match n {
                    Some(n) => vec![n],
                    None => vec![0, 1],
                }
            } else {
                vec![0]
            }
        }
        // unreadable / unrecognisable input: non-zero
        "non-alice" | "missing-file" | "empty" => (1..=255).collect(),
        _ => (0..=255).collect(),
    };
    if !want.contains(&r0.status) {
        out.fail = fail(
            &format!("status-{class}"),
            format!(
                "input class `{class}`, -E {:?}: exit status {} (expected {}); {} error messages shown, fatal reported: {fatal0} [cmd: {cmd0}]",
                n,
                r0.status,
                if want.len() > 3 { "non-zero".to_string() } else { format!("{want:?}") },
                shown0.len()
            ),
        );
        return out;
    }
    // --- totals == number of messages shown (no display option active, no fatal: after a fatal the
    // collector ignores later errors, which is covered by the relation total == shown as well)
    let (file0, rep0) = totals(&r0, &specs[0]);
    for (name, v) in [("statistics-file", file0), ("report", rep0)] {
        if let Some(t) = v {
            if t != shown0.len() as u64 {
                out.fail = fail(
                    &format!("total-vs-shown-{name}"),
                    format!("{name} total errors {t}, messages shown on stderr {} [cmd: {cmd0}]", shown0.len()),
                );
                return out;
            }
        }
    }
    // --- display options
    for (spec, kind) in specs.iter().zip(kinds.iter()).skip(1) {
        let r = ex.exec(spec);
        if let Some(f) = check_orderly(&r) {
            out.fail = Some(f);
            return out;
        }
        let shown = shown_errors(&r);
        let (file, rep) = totals(&r, spec);
        let cmd = spec.cmdline();
        if kind == "other-mode-custom" {
            // (an input refused at its very first RDH - a corruption that hit it - is not processed at all: any non-zero
            // status, the matter of the input classes above)
            if init_failed(&r) {
                if r.status == 0 {
                    out.fail = fail("status-custom-check-other-mode", format!("input refused at the first RDH but exit status 0 [cmd: {cmd}]"));
                    return out;
                }
                continue;
            }
            // (a view may also run into a fatal of its own - excess padding is one for the views: 0 or 1 without -E)
            let want = n.unwrap_or(if fatal_reported(&r) && r.status == 1 { 1 } else { 0 });
            if r.status != want {
                out.fail = fail(
                    "status-custom-check-other-mode",
                    format!("-E {:?} and a failing custom check: exit status {} (expected {want}) [cmd: {cmd}]", n, r.status),
                );
                return out;
            }
        } else if kind == "other-mode" {
            // view / filtered writing on the same input: a reported fatal gives N (0 or 1 without -E)
            let fatal = fatal_reported(&r);
            if let Some(p) = chain_breaks_at {
                if !fatal && !init_failed(&r) {
                    out.fail = fail(
                        "fatal-not-reported-other-mode",
                        format!("the RDH at {p:#X} has an offset-to-next outside the accepted range: no fatal input error is reported [cmd: {cmd}]"),
                    );
                    return out;
                }
            }
            let want: Vec<i32> = if init_failed(&r) {
                (1..=255).collect()
            } else if fatal {
                match n {
                    Some(n) => vec![n],
                    None => vec![0, 1],
                }
            } else if !shown.is_empty() {
                // no fatal, but errors were reported (a view logs unknown word IDs and payload errors, the
                // reader [E100]/[E101]): N like any other reported error
                match n {
                    Some(n) => vec![n],
                    None => vec![0],
                }
            } else {
                // nothing on stderr: either nothing was found (the writer with a filter may never reach the
                // broken packet's successor) or the mode does not display what it counted (filtered data to
                // stdout, views without report) - both 0 and N are consistent with the statement
                match n {
                    Some(n) => vec![0, n],
                    None => vec![0],
                }
            };
            if !want.contains(&r.status) {
                out.fail = fail(
                    "status-fatal-midstream-other-mode",
                    format!(
                        "-E {:?}: exit status {} (expected {}); fatal reported: {fatal} [cmd: {cmd}]",
                        n,
                        r.status,
                        if want.len() > 3 { "non-zero".to_string() } else { format!("{want:?}") }
                    ),
                );
                return out;
            }
        } else if kind == "mute" {
            if !shown.is_empty() {
                out.fail = fail("mute-shows-errors", format!("-m still shows {} messages, first: {} [cmd: {cmd}]", shown.len(), clip_pub(&shown[0].text)));
                return out;
            }
            // the whole statistics file, not only its totals
            if !fatal0 {
                if let Some(site) = mute_stats_difference(&r0, &specs[0], &r, spec) {
                    out.fail = fail(
                        &site,
                        format!("the statistics file written with -m differs from the one written without: {} [cmd: {cmd}]", site),
                    );
                    return out;
                }
            }
            if !fatal0 && (r.status != r0.status || (file.is_some() && file != file0) || (rep.is_some() && rep != rep0)) {
                out.fail = fail(
                    "mute-changes-result",
                    format!(
                        "-m changed more than the display: status {} vs {}, file total {file:?} vs {file0:?}, report total {rep:?} vs {rep0:?} [cmd: {cmd}]",
                        r.status, r0.status
                    ),
                );
                return out;
            }
        } else if let Some(list) = kind.strip_prefix("codes:") {
            let codes: Vec<&str> = list.split_whitespace().collect();
            if fatal0 {
                continue; // which errors were counted before the fatal is schedule dependent
            }
            // exactly the messages whose (first) code is listed
            let want: Vec<&str> = shown0
                .iter()
                .filter(|m| m.codes.first().map_or(false, |c| codes.contains(&c.trim_start_matches('E'))))
                .map(|m| m.text.as_str())
                .collect();
            let got: Vec<&str> = shown.iter().map(|m| m.text.as_str()).collect();
            if got != want {
                out.fail = fail(
                    "code-filter-selection",
                    format!(
                        "-w {list}: {} messages shown, {} of the {} unfiltered messages carry a listed code; first shown: {:?} [cmd: {cmd}]",
                        got.len(),
                        want.len(),
                        shown0.len(),
                        got.first().map(|s| clip_pub(s))
                    ),
                );
                return out;
            }
            if r.status != r0.status || (file.is_some() && file != file0) || (rep.is_some() && rep != rep0) {
                out.fail = fail(
                    "code-filter-changes-result",
                    format!("-w changed more than the display: status {} vs {}, totals {file:?}/{rep:?} vs {file0:?}/{rep0:?} [cmd: {cmd}]", r.status, r0.status),
                );
                return out;
            }
        } else if let Some(rest) = kind.strip_prefix("codes+cap:") {
            // `-w <codes> -e N`: the messages with a listed code, at most N of them. When the whole
            // input fits one reader batch every error is collected whatever the schedule, so the
            // display is exactly the first N messages (by position) that carry a listed code.
            let (list, nstr) = rest.rsplit_once(':').unwrap_or((rest, "0"));
            let cap: usize = nstr.parse().unwrap_or(usize::MAX);
            let codes: Vec<&str> = list.split_whitespace().collect();
            if fatal0 {
                continue;
            }
            // (an end-of-run expectation message quotes the count the run arrived at, which a cap cuts short:
            // such messages are compared by their code)
            let norm = |m: &'_ oracle::ErrMsg| -> String {
                match m.codes.first().map(|c| c.as_str()) {
                    Some("E9001") | Some("E9002") => m.codes[0].clone(),
                    _ => m.text.clone(),
                }
            };
            let listed_owned: Vec<String> = shown0
                .iter()
                .filter(|m| m.codes.first().map_or(false, |c| codes.contains(&c.trim_start_matches('E'))))
                .map(norm)
                .collect();
            let listed: Vec<&str> = listed_owned.iter().map(|s| s.as_str()).collect();
            let got_owned: Vec<String> = shown.iter().map(norm).collect();
            let got: Vec<&str> = got_owned.iter().map(|s| s.as_str()).collect();
            // (exact only when the cap did not cut the run short: once the cap is reached the stop flag ends the
            // analysis, and which of the remaining errors were still collected is a matter of scheduling - then the
            // statement's own bounds apply: listed codes only, at most N)
            let all_collected = file.map_or(false, |t| t as usize == shown0.len());
            let single_batch = all_collected && itsgen::walker::walk(&spec.input).pkts.len() <= 100;
            let ok = if single_batch {
                got == listed.iter().take(cap).copied().collect::<Vec<_>>()
            } else {
                got.len() <= cap && got.iter().all(|g| listed.contains(g))
            };
            if !ok {
                out.fail = fail(
                    "code-filter-with-cap",
                    format!(
                        "-w {list} -e {cap}: {} messages shown; {} of the {} unfiltered messages carry a listed code (expected the first {} of them) [cmd: {cmd}]",
                        got.len(),
                        listed.len(),
                        shown0.len(),
                        listed.len().min(cap)
                    ),
                );
                return out;
            }
        } else if kind == "stats-to-stdout" {
            // the same run with the statistics written to stdout: the same messages are shown, the same status
            if fatal0 || fatal_reported(&r) {
                continue;
            }
            let a: Vec<&str> = shown0.iter().map(|m| m.text.as_str()).collect();
            let b: Vec<&str> = shown.iter().map(|m| m.text.as_str()).collect();
            if a != b || r.status != r0.status {
                out.fail = fail(
                    "stats-to-stdout-changes-what-is-shown",
                    format!(
                        "statistics to stdout instead of a file: {} messages shown (file run: {}), status {} (file run: {}) [cmd: {cmd}]",
                        b.len(),
                        a.len(),
                        r.status,
                        r0.status
                    ),
                );
                return out;
            }
        } else if kind == "ignored-output-option" {
            // the same check with an output destination that is accepted and ignored (a file or the word stdout) and
            // the filter it requires: no display option is active - what the statistics file counts is what is shown
            if fatal_reported(&r) {
                continue;
            }
            if let Some(t) = file {
                if t != shown.len() as u64 {
                    out.fail = fail(
                        "total-vs-shown-with-ignored-output-option",
                        format!("statistics-file total errors {t}, messages shown on stderr {} [cmd: {cmd}]", shown.len()),
                    );
                    return out;
                }
            }
            let want: Vec<i32> = if shown.is_empty() && file.unwrap_or(0) == 0 { vec![0] } else { vec![n.unwrap_or(0)] };
            if !want.contains(&r.status) && !init_failed(&r) {
                out.fail = fail(
                    "status-with-ignored-output-option",
                    format!("-E {:?}: exit status {} (expected {want:?}), {} messages shown [cmd: {cmd}]", n, r.status, shown.len()),
                );
                return out;
            }
        } else if let Some(nstr) = kind.strip_prefix("cap:") {
            let cap: usize = nstr.parse().unwrap_or(usize::MAX);
            if shown.len() > cap {
                out.fail = fail("cap-exceeded", format!("-e {cap}: {} messages shown [cmd: {cmd}]", shown.len()));
                return out;
            }
            if !shown0.is_empty() && !fatal0 {
                if let Some(n) = n {
                    if r.status != n {
                        out.fail = fail(
                            "cap-status",
                            format!("-e {cap} -E {n}: errors were reported but exit status is {} [cmd: {cmd}]", r.status),
                        );
                        return out;
                    }
                }
            }
        }
    }
    out
}

pub fn run_rejected(ex: &mut Executor, spec: &ExecSpec, label: &str) -> TrialOutcome {
    let r = ex.exec(spec);
    let mut out = TrialOutcome {
        nontrivial: true,
        key: fpsim_rt::rng::hash_bytes(spec.cmdline().as_bytes()),
        labels: vec![label.to_string()],
        ..Default::default()
    };
    if let Some(f) = check_orderly(&r) {
        out.fail = Some(f);
        return out;
    }
    let fail = |site: &str, msg: String| Some(Fail::new("exit-contract", site, msg));
    if r.status == 0 || !r.config_rejected {
        out.fail = fail(
            "invalid-options-accepted",
            format!("invalid option combination was not rejected: status {} [cmd: {}]", r.status, spec.cmdline()),
        );
        return out;
    }
    if !r.stdout.is_empty() || r.out_file.is_some() || r.stats_file.is_some() || !r.cwd_files.is_empty() {
        out.fail = fail(
            "output-before-rejection",
            format!(
                "rejected command line still produced output: stdout {} bytes, -o file {:?}, stats file {:?}, files left in the current directory {:?} [cmd: {}]",
                r.stdout.len(),
                r.out_file.as_ref().map(|b| b.len()),
                r.stats_file.as_ref().map(|b| b.len()),
                r.cwd_files,
                spec.cmdline()
            ),
        );
    }
    out
}

/// Compare the statistics files of the unmuted and the muted run. None: identical (timing fields aside).
/// The one difference that is a known finding gets its own site: ALPIDE lane errors, whose per-lane
/// context (and with it the sub-codes E9003/E9004/E9005) is left out of the stored message when muted.
fn mute_stats_difference(r0: &ExecResult, s0: &ExecSpec, r: &ExecResult, s: &ExecSpec) -> Option<String> {
    let a = r0.stats_file.as_ref().and_then(|b| oracle::parse_stats(b, &s0.stats_ext))?;
    let b = r.stats_file.as_ref().and_then(|b| oracle::parse_stats(b, &s.stats_ext))?;
    if a == b {
        return None;
    }
    let mut a2 = a.clone();
    let mut b2 = b.clone();
    let mut only_lane_context = true;
    // reported_errors: the tool stores a muted message without its context lines (the RDH dump of an
    // [E10]/[E11], the per-lane details of an [E74]/[E75]): by design, and only the text a reader would be
    // shown. What must agree is the first line of every message (position, code, finding).
    let ea = a.pointer("/error_stats/reported_errors").and_then(|v| v.as_array()).cloned().unwrap_or_default();
    let eb = b.pointer("/error_stats/reported_errors").and_then(|v| v.as_array()).cloned().unwrap_or_default();
    if ea.len() != eb.len() {
        only_lane_context = false;
    } else {
        for (x, y) in ea.iter().zip(eb.iter()) {
            let (x, y) = (x.as_str().unwrap_or(""), y.as_str().unwrap_or(""));
            let first = |t: &str| t.lines().next().unwrap_or("").trim_end().to_string();
            if first(x) != first(y) {
                only_lane_context = false;
            }
        }
    }
    // unique_error_codes: the muted list is the unmuted one without 9003 / 9004 / 9005
    let ca: Vec<String> = a.pointer("/error_stats/unique_error_codes").and_then(|v| v.as_array()).map(|v| v.iter().filter_map(|x| x.as_str().map(String::from)).collect()).unwrap_or_default();
    let cb: Vec<String> = b.pointer("/error_stats/unique_error_codes").and_then(|v| v.as_array()).map(|v| v.iter().filter_map(|x| x.as_str().map(String::from)).collect()).unwrap_or_default();
    let ca_f: Vec<&String> = ca.iter().filter(|c| !["9003", "9004", "9005"].contains(&c.as_str())).collect();
    let cb_f: Vec<&String> = cb.iter().filter(|c| !["9003", "9004", "9005"].contains(&c.as_str())).collect();
    if ca_f != cb_f {
        only_lane_context = false;
    }
    for v in [&mut a2, &mut b2] {
        if let Some(es) = v.get_mut("error_stats").and_then(|e| e.as_object_mut()) {
            es.remove("reported_errors");
            es.remove("unique_error_codes");
        }
    }
    if a2 != b2 {
        only_lane_context = false;
    }
    if only_lane_context && ca == cb {
        return None;
    }
    Some(if only_lane_context {
        "mute-changes-statistics-file:alpide-lane-context".to_string()
    } else {
        "mute-changes-statistics-file".to_string()
    })
}
