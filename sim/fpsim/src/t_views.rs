//! C19: rows of the three views decode back to the bytes at their offsets; decoded attributes agree
//! with a reference decoding written from the documented bit layouts; styled == unstyled content.

use crate::exec::{ExecResult, ExecSpec};
use crate::framework::{case_key, Executor, Fail, TrialOutcome};
use crate::oracle::{self, FrameRow};
use crate::t_stream::{check_data_view, check_rdh_rows, filter_of_argv};
use crate::trials::{check_orderly, clip_pub};
use itsgen::walker::{walk, Filter, Walk};
use itsgen::words::{Tdh, Tdt};

fn fail(site: &str, msg: String) -> Option<Fail> {
    Some(Fail::new("view", site, msg))
}

/// Lane-status summary of the 56 lane-status bits (2 bits per lane: 01 warning, 10 error, 11 fatal).
fn lane_status_word(bytes7: &[u8]) -> &'static str {
    let mut any_w = false;
    let mut any_e = false;
    let mut any_f = false;
    for b in bytes7 {
        for k in 0..4 {
            match (b >> (2 * k)) & 3 {
                1 => any_w = true,
                2 => any_e = true,
                3 => any_f = true,
                _ => {}
            }
        }
    }
    // a fatal lane has both bits set, so it also counts as carrying the error and warning bits
    if any_f {
        "Fatal"
    } else if any_e {
        "Error"
    } else if any_w {
        "Warning"
    } else {
        "-"
    }
}

fn rdh_trigger_word(tt: u32) -> &'static str {
    if tt & (1 << 9) != 0 {
        "SOC"
    } else if tt & (1 << 7) != 0 {
        "SOT"
    } else if tt & (1 << 1) != 0 {
        "HB"
    } else if tt & (1 << 4) != 0 {
        "PhT"
    } else {
        "Other"
    }
}

fn rdh_lane_word(det: u32) -> &'static str {
    if det & 0b1000 != 0 {
        "Fatal"
    } else if det & 0b100 != 0 {
        "Error"
    } else if det & 0b10 != 0 {
        "Warning"
    } else if det & 0b1 != 0 {
        "Missing"
    } else {
        "-"
    }
}

/// Decoded attributes of the readout-frame views against the reference decoding.
fn check_attributes(r: &ExecResult, w: &Walk, f: Filter) -> Option<Fail> {
    let rows = oracle::frame_rows(&r.stdout);
    let pk: std::collections::BTreeMap<u64, &itsgen::walker::Pkt> =
        w.pkts.iter().filter(|p| f.matches(&p.rdh)).map(|p| (p.off as u64, p)).collect();
    for row in &rows {
        match row {
            FrameRow::Rdh { off, text } => {
                let Some(p) = pk.get(off) else { continue };
                let h = &p.rdh;
                let toks: Vec<&str> = text.split_whitespace().collect();
                // RDH v7 stop=0 stave: L0_12 <trig> #<link> <lane> <orbit>_<bc>
                let want_stave = format!("L{}_{}", h.layer(), h.stave());
                let want_link = format!("#{}", h.link_id);
                let want_trig = rdh_trigger_word(h.trigger_type);
                let want_lane = rdh_lane_word(h.detector_field);
                let want_ob_a = format!("{}_{}", h.orbit, h.bc); // bc may be right-aligned: `_  12`
                let joined: String = toks.join(" ");
                let tail_nospace: String = text.chars().filter(|c| !c.is_whitespace()).collect();
                let checks: [(&str, bool); 5] = [
                    ("stave", toks.get(4).map_or(false, |t| *t == want_stave)),
                    ("trigger", toks.get(5).map_or(false, |t| *t == want_trig)),
                    ("link", toks.iter().any(|t| *t == want_link) || joined.contains(&format!("# {}", h.link_id))),
                    ("lane-status", toks.iter().any(|t| *t == want_lane)),
                    ("orbit-bc", tail_nospace.ends_with(&want_ob_a.replace(' ', ""))),
                ];
                for (name, ok) in checks {
                    if !ok {
                        return fail(
                            &format!("rdh-row-{name}"),
                            format!(
                                "RDH row at {off:#X} `{}`: expected stave {want_stave}, trigger {want_trig}, link {want_link}, lane status {want_lane}, orbit_bc {want_ob_a}",
                                clip_pub(text)
                            ),
                        );
                    }
                }
            }
            FrameRow::Word { off, tag, bytes, rest } => {
                let toks: Vec<&str> = rest.split_whitespace().collect();
                let nospace: String = rest.chars().filter(|c| !c.is_whitespace()).collect();
                match tag.as_str() {
                    "TDH" => {
                        let t = Tdh::from_word(bytes);
                        let want_trig = if t.trigger_type & (1 << 9) != 0 {
                            "SOC"
                        } else if t.internal {
                            "Internal"
                        } else if t.trigger_type & (1 << 4) != 0 {
                            "PhT"
                        } else {
                            "Other"
                        };
                        let has_cont = toks.iter().any(|x| *x == "Cont.");
                        let want_nd = if t.no_data { "Nodata" } else { "Data!" };
                        let want_ob = format!("{}_{}", t.orbit, t.bc);
                        let ok = toks.first().map_or(false, |x| *x == want_trig)
                            && has_cont == t.continuation
                            && nospace.contains(want_nd)
                            && nospace.ends_with(&want_ob);
                        if !ok {
                            return fail(
                                "tdh-attributes",
                                format!(
                                    "TDH row at {off:#X} shows `{}`; the word {:02X?} decodes to trigger {want_trig}, continuation {}, no_data {}, orbit_bc {want_ob}",
                                    clip_pub(rest), bytes, t.continuation, t.no_data
                                ),
                            );
                        }
                    }
                    "TDT" => {
                        let t = Tdt::from_word(bytes);
                        let want_ps = if t.packet_done { "Complete" } else { "Split" };
                        let want_lane = lane_status_word(&bytes[0..7]);
                        let ok = toks.first().map_or(false, |x| *x == want_ps)
                            && toks.last().map_or(false, |x| *x == want_lane);
                        if !ok {
                            return fail(
                                "tdt-attributes",
                                format!(
                                    "TDT row at {off:#X} shows `{}`; the word {:02X?} decodes to {want_ps}, lane status {want_lane}",
                                    clip_pub(rest), bytes
                                ),
                            );
                        }
                    }
                    "DDW" => {
                        let want_lane = lane_status_word(&bytes[0..7]);
                        if toks.last().map_or(true, |x| *x != want_lane) {
                            return fail(
                                "ddw-attributes",
                                format!("DDW row at {off:#X} shows `{}`; the word {:02X?} has lane status {want_lane}", clip_pub(rest), bytes),
                            );
                        }
                    }
                    _ => {}
                }
            }
        }
    }
    None
}

/// Content of the data rows with all styling and whitespace removed.
fn content_lines(stdout: &[u8]) -> Vec<String> {
    oracle::strip_ansi(&String::from_utf8_lossy(stdout))
        .lines()
        .filter(|l| {
            l.split_once(':').map_or(false, |(p, _)| {
                let p = p.trim();
                !p.is_empty() && p.chars().all(|c| c.is_ascii_hexdigit())
            })
        })
        .map(|l| l.chars().filter(|c| !c.is_whitespace()).collect::<String>())
        .collect()
}

pub fn run_views(ex: &mut Executor, plain: &ExecSpec, styled: &ExecSpec, conforming: bool, label: &str) -> TrialOutcome {
    let r = ex.exec(plain);
    let input = &plain.input;
    let w = walk(input);
    let mut out = TrialOutcome {
        nontrivial: w.pkts.len() >= 2 && r.outcome.threads >= 3,
        key: case_key(input, &r),
        labels: vec![label.to_string()],
        ..Default::default()
    };
    if let Some(f) = check_orderly(&r) {
        out.fail = Some(f);
        return out;
    }
    let f = filter_of_argv(&plain.argv);
    let is = |a: &str| plain.argv.iter().any(|x| x == a);
    let tag = |x: Option<Fail>, spec: &ExecSpec| {
        x.map(|mut x| {
            x.message = format!("{} [cmd: {} ; {:?}]", x.message, spec.cmdline(), spec.input_mode);
            x
        })
    };
    let verdict = if is("rdh") {
        check_rdh_rows(&r, &w, f)
    } else {
        check_data_view(&r, input, &w, f, is("its-readout-frames-data")).or_else(|| check_attributes(&r, &w, f))
    };
    if let Some(x) = tag(verdict, plain) {
        out.fail = Some(x);
        return out;
    }
    if conforming && !is("rdh") {
        // on conforming data no word is left unshown: no unknown-ID lines, no error at all
        if !oracle::error_msgs(&r.stderr).is_empty() {
            out.fail = tag(fail("conforming-data-view-errors", format!("view of conforming data logged errors: {}", clip_pub(&r.stderr_str()))), plain);
            return out;
        }
    }
    // styled output carries the same content
    let rs = ex.exec(styled);
    if let Some(f) = check_orderly(&rs) {
        out.fail = Some(f);
        return out;
    }
    let a = content_lines(&r.stdout);
    let b = content_lines(&rs.stdout);
    if a != b {
        let idx = (0..a.len().max(b.len())).find(|&i| a.get(i) != b.get(i)).unwrap_or(0);
        out.fail = tag(
            fail(
                "styled-differs",
                format!(
                    "styled and unstyled output differ in content at row {idx}: unstyled `{}` vs styled `{}` ({} vs {} rows)",
                    a.get(idx).map(|s| clip_pub(s)).unwrap_or_default(),
                    b.get(idx).map(|s| clip_pub(s)).unwrap_or_default(),
                    a.len(),
                    b.len()
                ),
            ),
            styled,
        );
    }
    out
}
