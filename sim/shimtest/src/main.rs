//! Differential self-test of the channel shims: the same seeded scripts of non-blocking channel
//! operations (and blocking ones that are guaranteed to complete) run on the shim and on the real
//! crate; every observable result must agree.
use fpsim_rt::rng::Rng;

#[derive(Debug, PartialEq, Clone)]
enum Obs {
    Sent,
    SendDisconnected(u32),
    TrySendFull(u32),
    TrySendDisconnected(u32),
    Recv(u32),
    RecvDisconnected,
    TryRecvEmpty,
    TryRecvDisconnected,
    Len(usize),
    Empty(bool),
    Full(bool),
    Cap(Option<usize>),
    Drained(Vec<u32>),
    Nop,
}

macro_rules! script {
    ($name:ident, $krate:ident, $flume:expr) => {
        fn $name(seed: u64, cap: Option<usize>) -> Vec<Obs> {
            let mut rng = Rng::new(seed);
            let (tx, rx) = match cap {
                Some(c) => $krate::bounded::<u32>(c),
                None => $krate::unbounded::<u32>(),
            };
            let mut txs = vec![Some(tx)];
            let mut rxs = vec![Some(rx)];
            let mut out = Vec::new();
            let mut next = 0u32;
            let mut queued = 0usize;
            for _ in 0..200 {
                let live_tx: Vec<usize> = (0..txs.len()).filter(|&i| txs[i].is_some()).collect();
                let live_rx: Vec<usize> = (0..rxs.len()).filter(|&i| rxs[i].is_some()).collect();
                let op = rng.below(14);
                let o = match op {
                    0 | 1 if !live_tx.is_empty() => {
                        // blocking send only when it cannot block
                        let t = txs[live_tx[rng.usize_below(live_tx.len())]].as_ref().unwrap();
                        if live_rx.is_empty() || cap.map_or(true, |c| queued < c) {
                            next += 1;
                            match t.send(next) {
                                Ok(()) => {
                                    queued += 1;
                                    Obs::Sent
                                }
                                Err(e) => Obs::SendDisconnected(e.0),
                            }
                        } else {
                            Obs::Nop
                        }
                    }
                    2 | 3 if !live_tx.is_empty() => {
                        let t = txs[live_tx[rng.usize_below(live_tx.len())]].as_ref().unwrap();
                        next += 1;
                        match t.try_send(next) {
                            Ok(()) => {
                                queued += 1;
                                Obs::Sent
                            }
                            Err($krate::TrySendError::Full(v)) => Obs::TrySendFull(v),
                            Err($krate::TrySendError::Disconnected(v)) => Obs::TrySendDisconnected(v),
                        }
                    }
                    4 | 5 if !live_rx.is_empty() => {
                        // blocking recv only when it cannot block
                        let r = rxs[live_rx[rng.usize_below(live_rx.len())]].as_ref().unwrap();
                        if queued > 0 || live_tx.is_empty() {
                            match r.recv() {
                                Ok(v) => {
                                    queued -= 1;
                                    Obs::Recv(v)
                                }
                                Err(_) => Obs::RecvDisconnected,
                            }
                        } else {
                            Obs::Nop
                        }
                    }
                    6 | 7 if !live_rx.is_empty() => {
                        let r = rxs[live_rx[rng.usize_below(live_rx.len())]].as_ref().unwrap();
                        match r.try_recv() {
                            Ok(v) => {
                                queued -= 1;
                                Obs::Recv(v)
                            }
                            Err($krate::TryRecvError::Empty) => Obs::TryRecvEmpty,
                            Err($krate::TryRecvError::Disconnected) => Obs::TryRecvDisconnected,
                        }
                    }
                    8 if !live_tx.is_empty() && txs.len() < 4 => {
                        let c = txs[live_tx[0]].as_ref().unwrap().clone();
                        txs.push(Some(c));
                        Obs::Nop
                    }
                    9 if !live_rx.is_empty() && rxs.len() < 3 => {
                        let c = rxs[live_rx[0]].as_ref().unwrap().clone();
                        rxs.push(Some(c));
                        Obs::Nop
                    }
                    10 if !live_tx.is_empty() && rng.chance(1, 3) => {
                        let i = live_tx[rng.usize_below(live_tx.len())];
                        txs[i] = None;
                        Obs::Nop
                    }
                    11 if !live_rx.is_empty() && rng.chance(1, 4) => {
                        let i = live_rx[rng.usize_below(live_rx.len())];
                        rxs[i] = None;
                        // real crates discard queued messages when the last receiver goes away
                        if rxs.iter().all(|r| r.is_none()) {
                            queued = 0;
                        }
                        Obs::Nop
                    }
                    12 if !live_rx.is_empty() => {
                        let r = rxs[live_rx[0]].as_ref().unwrap();
                        out.push(Obs::Len(r.len()));
                        out.push(Obs::Empty(r.is_empty()));
                        out.push(Obs::Full(r.is_full()));
                        Obs::Cap(r.capacity())
                    }
                    13 if !live_rx.is_empty() && live_tx.is_empty() => {
                        // all senders gone: iterating ends after the queued messages
                        let r = rxs[live_rx[0]].as_ref().unwrap();
                        let v: Vec<u32> = r.iter().collect();
                        queued = 0;
                        Obs::Drained(v)
                    }
                    _ => Obs::Nop,
                };
                out.push(o);
                let _ = $flume;
            }
            out
        }
    };
}

script!(shim_cb_script, shim_cb, false);
script!(real_cb_script, real_cb, false);
script!(shim_fl_script, shim_fl, true);
script!(real_fl_script, real_fl, true);

fn main() {
    let mut scripts = 0;
    for seed in 0..4000u64 {
        for cap in [None, Some(1usize), Some(2), Some(5), Some(100)] {
            let (a, b) = (shim_cb_script(seed, cap), real_cb_script(seed, cap));
            if a != b {
                let i = a.iter().zip(b.iter()).position(|(x, y)| x != y).unwrap_or(0);
                eprintln!("shimtest: crossbeam-channel shim differs from the real crate: seed {seed} cap {cap:?} op {i}: shim {:?} real {:?}", a.get(i), b.get(i));
                std::process::exit(2);
            }
            let (a, b) = (shim_fl_script(seed, cap), real_fl_script(seed, cap));
            if a != b {
                let i = a.iter().zip(b.iter()).position(|(x, y)| x != y).unwrap_or(0);
                eprintln!("shimtest: flume shim differs from the real crate: seed {seed} cap {cap:?} op {i}: shim {:?} real {:?}", a.get(i), b.get(i));
                std::process::exit(2);
            }
            scripts += 2;
        }
    }
    println!("shimtest: {scripts} scripted operation sequences (200 operations each) agree between the shims and crossbeam-channel 0.5.13 / flume 0.11.0");
}
