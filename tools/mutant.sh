#!/bin/bash
# Run checks against a modified copy of CramBL/fastPASTA without touching /repo or /verif/sim/target.
#   tools/mutant.sh <patch.diff> <Cnn> [<Cnn>...]      (env TIER=quick|thorough)
# A scratch git worktree of /repo gets the patch; a scratch copy of /verif (without build output) is
# pointed at it through FPSIM_REPO; everything lives under /tmp/fpmut and the worktree is removed
# afterwards (the shared build directory /tmp/fpmut/target is kept between invocations; remove it
# with `tools/mutant.sh --clean`).
set -u
ROOT="${FPMUT_ROOT:-/tmp/fpmut}"
if [ "${1:-}" = "--clean" ]; then
    git -C /repo worktree remove --force "$ROOT/repo" 2>/dev/null
    rm -rf "$ROOT"
    git -C /repo worktree prune
    exit 0
fi
PATCH="$(realpath "$1")"; shift
mkdir -p "$ROOT"
git -C /repo worktree remove --force "$ROOT/repo" 2>/dev/null
git -C /repo worktree prune
git -C /repo worktree add -q --detach "$ROOT/repo" HEAD || exit 2
if ! git -C "$ROOT/repo" apply "$PATCH"; then
    echo "mutant.sh: patch does not apply" >&2
    git -C /repo worktree remove --force "$ROOT/repo"
    exit 2
fi
rsync -a --delete --exclude 'sim/target' --exclude '.git' --exclude 'replays' --exclude 'evidence' /verif/ "$ROOT/verif/"
rc=0
for p in "$@"; do
    ( cd "$ROOT/verif" && FPSIM_REPO="$ROOT/repo" CARGO_TARGET_DIR="$ROOT/target" ./check "$p" "${TIER:-quick}" 2>&1 | cut -c1-400 | grep -v "^  class" | head -n 30 )
    r=${PIPESTATUS[0]}
done
git -C /repo worktree remove --force "$ROOT/repo"
git -C /repo worktree prune
exit 0
