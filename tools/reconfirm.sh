#!/bin/bash
# Re-confirm an archived seeded change on its own, in a fresh scratch worktree of /repo:
#   tools/reconfirm.sh <id>      (prints: "<id> demo-clean=<rc> demo-patched=<rc> tests=<rc> (<n> ok binaries)")
# The demonstration kept in seeded/<id>/ must pass without the patch and fail with it; the repository's test
# suite must pass with it. The worktree (and its build output) is removed afterwards.
set -u
ID=$1
S=/verif/seeded/$ID
W=/tmp/reconfirm/$ID/repo
D=/tmp/reconfirm/$ID/demo
rm -rf /tmp/reconfirm/$ID; mkdir -p /tmp/reconfirm/$ID
git -C /repo worktree add -q --detach "$W" HEAD || exit 2
cp -r "$S" "$D"
demo() { (cd "$D" && REPO="$W" timeout 1500 bash ./demo.sh >"/tmp/reconfirm/$ID/demo_$1.log" 2>&1; echo $?); }
# demos written for /tmp/agents/<Cnn>/repo read REPO from the environment; some fall back to their default path
sed -i "s#/tmp/agents/[A-Z0-9]*/repo#$W#g; s#/tmp/agents/[A-Z0-9]*/out[0-9]*#$D#g" "$D"/*.sh "$D"/*.py 2>/dev/null
r0=$(demo clean)
if ! git -C "$W" apply "$S/patch.diff"; then echo "$ID PATCH-DOES-NOT-APPLY"; git -C /repo worktree remove --force "$W"; exit 1; fi
r1=$(demo patched)
(cd "$W" && CARGO_NET_OFFLINE=true cargo test --workspace --no-fail-fast --offline -j 4 >"/tmp/reconfirm/$ID/tests.log" 2>&1); rt=$?
echo "$ID demo-clean=$r0 demo-patched=$r1 tests=$rt ($(grep -c 'test result: ok' /tmp/reconfirm/$ID/tests.log) ok binaries, $(grep -E '^test result' /tmp/reconfirm/$ID/tests.log | grep -vc ' 0 failed') with failures)"
git -C /repo worktree remove --force "$W"; git -C /repo worktree prune
rm -rf "/tmp/reconfirm/$ID/repo"
