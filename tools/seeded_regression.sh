#!/bin/bash
# Re-run every archived seeded change against the check(s) of its property and print one line per
# change: "<id> <Cnn> caught|MISSED <violations>". Uses its own scratch root so that it can run next to
# interactive tools/mutant.sh invocations.   tools/seeded_regression.sh [id-prefix]
export FPMUT_ROOT=/tmp/fpmut-regress
cd "$(dirname "$0")/.."
for d in seeded/${1:-}*/; do
    [ -f "$d/meta.json" ] || continue
    id=$(basename "$d")
    prop=$(python3 -c "import json;m=json.load(open('$d/meta.json'));print(' '.join(m.get('checked_with',[m['breaks_property']])))")
    out=$(tools/mutant.sh "$d/patch.diff" $prop 2>&1)
    n=$(echo "$out" | grep -oE "[0-9]+ violations" | head -n 1 | cut -d' ' -f1)
    if echo "$out" | grep -q "^VIOLATION" || [ "${n:-0}" -gt 0 ] 2>/dev/null; then echo "$id $prop caught ${n:-?}"; else echo "$id $prop MISSED ${n:-?} $(echo "$out" | tail -n 1 | cut -c1-120)"; fi
done
tools/mutant.sh --clean
