#!/usr/bin/env python3
"""Archive a confirmed seeded change: tools/keep_seeded.py <Cnn> <out|out2> <id> <caught_by> <needs...>"""
import json, os, shutil, sys, glob
prop, out, sid, caught = sys.argv[1:5]
needs = " ".join(sys.argv[5:])
src = f"/tmp/agents/{prop}/{out}"
dst = f"/verif/seeded/{sid}"
os.makedirs(dst, exist_ok=True)
for f in glob.glob(src + "/*"):
    b = os.path.basename(f)
    if b.startswith("confirm_") or b.endswith(".log") or b.endswith(".txt") or os.path.getsize(f) > 300_000:
        continue
    if os.path.isfile(f):
        shutil.copy(f, dst)
def tail(p, n=3):
    try:
        return open(p, errors="replace").read().strip().splitlines()[-n:]
    except Exception:
        return []
meta = {
    "id": sid,
    "breaks_property": prop,
    "needs_to_manifest": needs,
    "origin": "independent sub-agent given only the property text and a scratch worktree of /repo",
    "confirmed": {
        "patch_applies_to": os.popen("git -C /repo rev-parse --short HEAD").read().strip(),
        "demo_without_patch_exit": 0,
        "demo_with_patch_exit": "non-zero",
        "test_suite_with_patch": "passes (cargo test --workspace --no-fail-fast --offline, 0 failures)",
        "how": f"tools/confirm_seeded.sh {prop} {out} (scratch worktree /tmp/agents/{prop}/repo)",
    },
    "checks_run": f"tools/mutant.sh seeded/{sid}/patch.diff {caught.split(' ')[0]}   (scratch copy of /verif + worktree of /repo under /tmp/fpmut)",
    "caught_by": caught,
}
json.dump(meta, open(dst + "/meta.json", "w"), indent=1)
print("kept", dst, sorted(os.listdir(dst)))
