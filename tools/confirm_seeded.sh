#!/bin/bash
# Confirm a seeded change produced by a sub-agent, in that agent's scratch worktree:
#   tools/confirm_seeded.sh <Cnn> <out|out2>
# checks: patch applies; demo passes without the patch and fails with it; test suite passes with it.
set -u
P=$1; O=$2
W=/tmp/agents/$P/repo; D=/tmp/agents/$P/$O
cd "$W" || exit 2
git checkout -q -- . ; git clean -fdq -e target
demo() { if [ -x "$D/demo.sh" ] || [ -f "$D/demo.sh" ]; then (cd "$D" && REPO="$W" timeout 900 bash ./demo.sh >"$D/confirm_$1.log" 2>&1; echo $?); else echo "nodemo"; fi; }
echo "== $P/$O"
r0=$(demo clean); echo "demo without patch: exit $r0"
git apply "$D/patch.diff" || { echo "PATCH DOES NOT APPLY"; exit 2; }
r1=$(demo patched); echo "demo with patch:    exit $r1"
CARGO_NET_OFFLINE=true cargo test --workspace --no-fail-fast --offline >"$D/confirm_tests.log" 2>&1; rt=$?
echo "test suite with patch: exit $rt ($(grep -c 'test result: ok' "$D/confirm_tests.log") ok binaries, $(grep -E '^test result' "$D/confirm_tests.log" | grep -vc ' 0 failed') with failures)"
git checkout -q -- . ; git clean -fdq -e target
