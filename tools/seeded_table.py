#!/usr/bin/env python3
"""Rewrites the seeded-change table in DESIGN.md from seeded/*/meta.json."""
import json, glob, os, re
HERE = os.path.dirname(os.path.dirname(os.path.abspath(__file__)))
rows = []
for m in sorted(glob.glob(os.path.join(HERE, "seeded", "*", "meta.json"))):
    d = json.load(open(m))
    rows.append(f"| {d['id']} | {d['breaks_property']} | {d['needs_to_manifest']} | {d['caught_by']} |")
table = "<!-- seeded-table-begin -->\n| id | property | needs, to manifest | caught by |\n|---|---|---|---|\n" + "\n".join(rows) + "\n<!-- seeded-table-end -->"
p = os.path.join(HERE, "DESIGN.md")
s = open(p).read()
if "SEEDED_TABLE_PLACEHOLDER" in s:
    s = s.replace("SEEDED_TABLE_PLACEHOLDER", table)
else:
    s = re.sub(r"<!-- seeded-table-begin -->.*?<!-- seeded-table-end -->", lambda _: table, s, flags=re.S)
open(p, "w").write(s)
print(len(rows), "seeded changes")
