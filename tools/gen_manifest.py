#!/usr/bin/env python3
"""Regenerates /verif/MANIFEST.json from the table below (kept in one place so that the claimed
checks, their levels and the not-applicable list stay consistent)."""
import json, os, subprocess

HERE = os.path.dirname(os.path.dirname(os.path.abspath(__file__)))

TECH = "deterministic simulation with fault injection (seeded scheduler over real threads, libc-level I/O seam, seeded search over schedules x faults x workloads)"

CLAIMED = {
    "C01": dict(level="exploration", ref="DESIGN.md §3 C01",
        text="Seeded search: conforming multi-link streams from the upstream model x five check modes x options x file/pipe x schedule policies x capacity caps x benign I/O faults; oracle: zero errors, no ERROR line, exit 0, statistics/report totals 0. Sampling, not proof: the grammar is unbounded. Command lines also carry -v 0..4 and custom-check files that conforming data satisfies. Shapes added: 13-24 links, pages filled to exactly 507/508/509 words, a full 8 KiB page and the 10000-byte limit, two FEE IDs on one link number stored one after the other. Every scenario also reports a bounded data queue requested with more than 2^20 slots (allocation size chosen by the program).",
        note="Trusts the generator's reading of 'conforming' (DESIGN.md appendix A) and the scheduler granularity (switches at channel ops/spawn/join/exit)."),
    "C04": dict(level="exploration", ref="DESIGN.md §3 C04",
        text="Seeded search over random bytes, byte-corrupted framed streams and conforming streams with 1-4 structure-aware corruption faults x all modes/options x file/pipe x schedules x read faults (short, EINTR, EIO); oracle: no panic in any managed thread, no deadlock, step budget, wall-clock limit, no fatal signal, exit status in {0,1,N}. Hangs are deterministic deadlock reports under the scheduler. The thorough tier runs the scenario twice: 150000 cases with simulator + code under test built with AddressSanitizer (memory errors abort the simulated process), then 600000 cases with the plain build. Workload additions: the repository's sample files with byte corruption, a no-command mode, many batches with a capped reader queue, an ignored -o, clock jumps.",
        note="panic=unwind build of the same sources stands in for the shipped panic=abort build; allocation failure is out of scope; std itself is not ASan-instrumented."),
    "C05": dict(level="exploration", ref="DESIGN.md §3 C05",
        text="For each (input, command line): one canonical-schedule run, then 8 (quick) / 24 (thorough) runs under random, PCT and starvation policies with capped queues and benign I/O faults; all listed outputs must be byte-identical (WARN lines as a multiset). Distinct interleavings and collector arrival orders are measured. Workloads added after seeded-change rounds: an overlap (memory size > offset-to-next, or offset-to-next shrunk into the payload) that makes two validators report at ONE position - different kinds and same kind with different bytes; an ignored -o next to the check; the repository's sample files; link / FEE / stave filters, half of them on a stream whose first packet belongs to another known system and is skipped (reader-side and analysis-side facts race to the collector); custom checks files and -w display filters; the threads' hash-table seeds follow the run's schedule seed (getrandom seam), so an order leaking from a hash table counts as schedule dependence; several FEE IDs on one link number in stave mode (a link filter then selects several validators), an ignored -o that names stdout, planned frames with lanes announcing a fatal state on every stave, one error flood of more than 10000 messages.",
        note="Thread switches happen only at channel operations, spawn, join and thread exit; sound for this code base because all cross-thread effects are such operations plus two flags read at loop heads."),
    "C03": dict(level="exploration", ref="DESIGN.md §3 C03",
        text="Well-framed streams with arbitrary headers (0/1/batch multiples/2-260 packets, thorough to 20000; payloads 0-10000 bytes or word sequences) x filter x 3-4 payload-handling paths (view rdh from file=seek and pipe=read-discard, check sanity skipped/loaded, data view) under schedules, capped queues, short reads/EINTR; oracle = independent chain walker: rows, offsets, decoded fields, word bytes, rdhs_seen/rdhs_filtered/payload_size. Also: the repository's sample files; one stream beyond 4 GiB per quick run (rows of view rdh and the order of error positions on both sides of 2^32, delivered through a repeating pipe seam); streams of 120-350 jumbo packets (8200-10000 payload bytes: whole batches above 800 KiB); an ignored -o next to filtered views and checks (no second consumer of the reader's batches).",
        note="Walker and RDH decoder in itsgen are written from the framing rules, not from the tool's scanner; word offsets only judged when payload layout agrees with the header's data format."),
    "C08": dict(level="exploration", ref="DESIGN.md §3 C08",
        text="Well-framed arbitrary streams x filter kind x EVERY distinct value present (+1 absent) x file/stdout destination x file/pipe source under schedules, capped reader->writer queue, short reads/writes, EINTR; oracle: byte-exact concatenation of the walker's matching packets, partition over all values, each output well framed, idempotence, Filter Stats count. Also: destination and statistics files left by an earlier run (stale content must be replaced), the repository's sample files, clock jumps, and one run with more selected packets than the writer buffers (1 Mi) through the repeating pipe seam; a custom end-of-run expectation that fails (report and exit status change, the bytes do not); a destination FILE whose name is the word stdout.",
        note="Trusts the independent chain walker; an empty input is expected to exit non-zero."),
    "C14": dict(level="exploration", ref="DESIGN.md §3 C14",
        text="Arbitrary / word-payload / conforming well-framed streams x checks, views, filtered writing x filters x JSON/TOML x file/pipe x schedules x benign I/O faults; every statistic the statement lists is recomputed by the independent chain walker (incl. all 20 trigger-bit counters, HBFs, layer/staves over analysed packets) and compared with the statistics file and the report rows. Also: stave-mode streams with ALPIDE frame errors (sub-codes on continuation lines), the repository's sample files, stale statistics files, and two streams beyond 4 GiB of payload per quick run (repeating pipe seam); check runs with end-of-run expectations from a custom checks file, whose [E9001]/[E9002] messages count in totals and codes; the `FEE IDs seen` row of the report (listed + `K more` == all; 1 stream in 25 has 50-350 FEE IDs).",
        note="Links are compared as a set (views do not sort the list); unique error codes only when the run finalises its statistics."),
    "C17": dict(level="exploration", ref="DESIGN.md §3 C17",
        text="Stop conditions placed inside active work: stop event injected at step 1 / last / uniformly drawn decision steps; stdout failing (EPIPE/ENOSPC) after 0 / len-1 / uniform N bytes in views, filtered data, statistics and report; error cap; mid-stream fatal framing error; crossed with random/PCT/starvation schedules and queue capacities capped to 1..8 (full queues). Oracle: no panic, no deadlock, all managed threads finished within the step budget, exit status allowed, partial -o file = whole packets and a prefix of the expected data. Bounded reaction measured in the program's own actions: input bytes read after the stop flag was raised (by the injected event or by the program) <= one batch + read-ahead; a view's failed write must be noticed (fatal reported or stop flag raised). Workloads: many batches with the reader queue capped to 1..2, an ignored -o next to checks, an error storm below the cap, input ending inside a packet while filtered data is written. The work left at the stop event is bounded by configuration: no data queue holds more undelivered packets than the largest configured capacity. 1 case in 13 runs on an input that NEVER ends (the pipe seam delivers the stream over and over) where the stop condition - unknown system ID in the first packet, stop event at a drawn step or at a drawn input byte (reaches a reader skipping between two decision steps), error cap, stdout going away - is the only way out: under a fair seeded schedule with queues capped to 1..4 the run must end within 150000 decision steps. The last stop point of every pipe case stalls the input instead (the pipe's writer stops sending, the pipe stays open) and delivers the stop event when every thread waits: known finding `stop-event-while-input-stalled` (nobody polls the flag while blocked).",
        note="The ctrlc helper thread and real signal delivery are replaced by the store they perform; bounded liveness = 50 x reference steps + 5000 (finite inputs), 150000 steps from the stop condition (endless inputs, fair random schedules only: under PCT/starvation a starved collector legitimately never raises the flag)."),
    "C18": dict(level="fault_enumeration", ref="DESIGN.md §3 C18",
        text="Crash-point enumeration: for small streams EVERY cut position 0..len, for larger ones every structural boundary (+-1) plus seeded positions; file (shorter file) and pipe (seam answers EOF at byte k); five check modes (findings compared) and views (rows compared); conforming and corrupted multi-link streams; under schedules. Oracle: normal end, findings below the incomplete packet identical to the untruncated run, view rows a prefix. Classes added: payloads above 8 KiB, an exact batch multiple of selected packets followed by skipped ones, small packets with header-only ones; a cut exactly between two packets leaves nothing incomplete (no message at or behind it); view rows of complete packets must not be missing; untruncated runs ending in a fatal are excluded; the boundary oracles apply where offset-to-next and memory size of the packets agree (otherwise the tool's reading position and the walker's boundaries differ by design); inputs several times the reader's 50 KiB buffer.",
        note="Frame messages are compared only when the frame end they quote lies before the cut."),
    "C07": dict(level="exploration", ref="DESIGN.md §3 C07",
        text="Well-framed streams whose slot size matches the header's data format (random ITS words with arbitrary headers; conforming streams with layout-preserving corruption) x five check modes x filters x -m/statistics file x file/pipe x schedules; every message's leading offset, 10-byte dump, `current :` RDH row and quoted frame end is compared with the input through the independent walker/decoder. Also the repository's sample files with bits flipped inside payload words; 0xFF filler bytes in data format 0.",
        note="One known finding (layout recognised from payload bytes 10..15 instead of the RDH data format) is listed in known_findings.json by its own site; any other byte-dump/offset mismatch still fails the check."),
    "C12": dict(level="exploration", ref="DESIGN.md §3 C12",
        text="(1) word table of the readout-frame views == independent word table for 0..700 words, both formats, padding 0..15, all size residues; (2) planted invalid-ID words in conforming streams reported exactly at their offsets; (3) excess-padding fault mid-continuation / before a stop page: one payload error at the RDH, nothing inside the payload, next packet judged from the initial state (no further error / DDW0 judged as IHW). Both data formats for the excess-padding fault, a second faulty payload on the same link, unknown ID 0xFF and 0xFF filler bytes in the word tables; planted words behind an RDH that is itself faulty in a field that changes nothing about the packet (header size, priority bit, reserved bits); second words beginning with exactly five zero bytes.",
        note="The chunking itself is a pure function: its sweep is workload randomisation inside the simulator; the fault-and-recovery half is the simulation-specific part."),
    "C16": dict(level="exploration", ref="DESIGN.md §3 C16",
        text="Input classes (clean, k errors, mid-stream fatal framing error, non-ALICE, missing file, empty) x check modes x -E n x display options (-m, -w code lists incl. prefixes of other codes, -e N), each run under its own schedule; invalid option combinations through the real clap parser + validate_args. Oracle: exit-status table; Total Errors (report) == total_errors (file) == messages shown; -m/-w change only the display; -e N shows at most N; rejected command lines write nothing. Also: the fatal and the failed-custom-check classes through views and filtered writing, -w together with -e, custom-check-only failures under -w 9001/9002, the whole statistics file compared between plain and -m runs, -g and odd-case stats-file extensions among the rejected command lines; where the independent chain walk arrives at an out-of-range offset-to-next the fatal must be reported in every mode, also when the reader meets that RDH while skipping for a filter; failing run expectations on top of data errors (caps and code filters apply to all messages together); the simulator runs the real init_config() (guarded process-arguments hook) in its own observed current directory.",
        note="The exit status is produced by the real util::lib::exit; the driver sim_main is a transcription of init::run."),
    "C19": dict(level="exploration", ref="DESIGN.md §3 C19",
        text="Arbitrary-header streams with random ITS words (all flag combinations) and conforming streams x three views x filters x file/pipe x schedules x short writes; rows parsed back: offsets, raw bytes, decoded attributes against a reference decoding from the documented bit layouts; styled == unstyled content; conforming data shows no error. Also: payloads up to 9900 bytes, unknown ID 0xFF, the repository's sample files with flipped word bits.",
        note="Trigger-kind priorities (SOC > SOT > HB > PhT; TDH: SOC > Internal > PhT) are taken as documented behaviour pinned by the repository's view tests."),
    "C09": dict(level="exploration", ref="DESIGN.md §3 C09",
        text="Seeded walks (20-600 words, illegal-word injection at 0/5/15/40 %) over the ITS word alphabet through the real ItsPayloadFsmContinuous::advance and CdpRunningValidator::check in-process; step-by-step refinement against the diagram model transcribed from the .puml: classification and successor for legal words, documented error family at the word for illegal ones. Coverage = distinct (implementation state, diagram state, word kind) tuples out of 56, reported by the check. The validator half draws varied RDH fields per packet and repeats earlier words byte for byte (state leaking through equality), goes through the real do_payload_checks (payload cutting included) and has payload-error resets between packets. After a wrong-ID word in a single-successor state the diagram's successor (by the unguarded edge; after_TDH by the word's no_data bit) is demanded. Packets of the walk change their data format (0 / 2).",
        note="No scheduler dimension (sequential FSM owned by one thread); uses the guarded verif_state_id accessor. Exhaustive enumeration of the product would be model checking and is deliberately not the deciding step."),
    "C10": dict(level="exploration", ref="DESIGN.md §3 C10",
        text="Per-link RDH-only histories starting at an HBF start, with bit flips over the header, boundary values, page/stop/orbit/trigger/FEE walks and packet loss/duplication/reordering, merged over 1-8 links and run through the whole pipeline under schedules in check sanity / check all x none / its. Exact two-sided oracle: [E10] iff the documented sanity predicate fails, [E11] iff the documented running automaton flags, each at the RDH's offset; nothing else reported. Also: sanity faults (one or two at once) on the FIRST RDH of a link; a fifth of the cases pins rdh_version through a custom-checks file, which must leave every other rule untouched; a fifth of the injected deviations are doubled on the same RDH (rules must not hide behind one another).",
        note="Reference predicate / automaton in itsgen::models are written from doc/checks_list.md with the tie-breaks of DESIGN.md §2.4 (detector-field bits 4..11 legal, BC 0xdeb legal)."),
    "C02": dict(level="exploration", ref="DESIGN.md §3 C02, appendix B",
        text="Conforming multi-link streams + ONE entry of the stream-fault catalogue (59 entries: RDH sanity fields, packet loss/duplication/reordering, page/stop/orbit/trigger/FEE edits, status- and data-word IDs and reserved bits, state-dependent ITS rules, CDW index, lanes, excess padding, stave-level frames) at a seeded applicable position, run in all check modes under seeded schedules. One-sided oracle: >=1 message of the documented family at the offending RDH/word in every mode where the rule is active, exit status == -E value; purely stateful violations silent in check sanity. 59 catalogue entries: the TDH sanity faults also on continuation and choice-state TDHs, ID 0xFF on last words, excess padding in both data formats. Half of the stave-mode cases run once more with the stave filter of the faulty link and a trigger period configured; the FEE-ID fault may pick another link's FEE ID, on two links in lockstep.",
        note="The catalogue's code/offset/mode table is DESIGN.md appendix B (doc/checks_list.md + README); cascading extra errors are allowed."),
    "C06": dict(level="exploration", ref="DESIGN.md §3 C06",
        text="Multi-link streams (conforming or with faults confined to single links): reference full run vs another merge of the same per-link sequences, the physically extracted single-link stream, a filter run, ONE single-threaded pass of the link through one real LinkValidator::run, and the stream with an extra fault on another link; messages normalised to (packet index in link, offset in packet) by the independent walker; per-link lists must be equal. Also: header-identity faults on a link's first packet, staves of one layer differing in one bit, two FEE IDs on one link, multi-link sample files; a filter run must report nothing for a link none of whose packets match; link numbers from the whole 8-bit range; one case with 257-300 staves; a link filter on a link number shared by several FEE IDs; system IDs no detector has on later packets of a link (a system-ID fatal is only legitimate for the first packet of the input).",
        note="Grouping by link (by FEE ID in stave mode); each FEE ID is carried by one link in the generated streams."),
    "C13": dict(level="exploration", ref="DESIGN.md §3 C13",
        text="Frames from the independent ALPIDE encoder (legal and with exactly one broken rule: lanes missing/extra/wrong group, chip or lane bunch counter, inner chip ID, chip count on inner lanes, duplicate chip, lane without chip, empty frame; optional lane announcing fatal) with seeded lane-word interleaving and continuation splits, generated twice with different pixel-hit content; exact per-frame verdict (E72/E73/E74/E75/E701 + E900x) at the frame start against the reference model, readout-flag counters against the chips' trailer flags. Half of the second variants run muted (-m) with the verdicts read from the statistics file; fatal-lane announcements fall within the first frames of a plan: one, two or three lanes in the same frame, in half of the cases another lane a frame or two later; bunch-counter byte 0x00 in 1 frame of 6, lanes that go on sending whole words of padding.",
        note="The frame in which a lane announces a fatal state is not judged (documentation does not say whether the announcing lane still counts)."),
    "C15": dict(level="fault_enumeration", ref="DESIGN.md §3 C15",
        text="History of runs: A writes the statistics file, B (other schedule seed, capacity cap, benign I/O faults) must accept it; then EVERY leaf of the stored file that the run also collects is perturbed one at a time (complete enumeration per file in 2 of 3 cases) and the input is changed by one packet: B must report the mismatch and exit with the -E status. All check modes, JSON/TOML, -m on/off, conforming and corrupted inputs. Also through views (1 in 6), with filters and a first link of another detector system, frame errors on two staves, a long stale statistics file at the output path, failing run expectations (custom checks file) whose messages and codes must round-trip, and a closed stdout (EPIPE) during every fifth drift run; every fourth perturbed leaf gets a value that does not fit its field (-1, 2^32, 256, an unknown system name).",
        note="One known finding (round trip after a mid-stream fatal input error depends on scheduling) is listed in known_findings.json under its own site."),
    "C20": dict(level="exploration", ref="DESIGN.md §3 C20",
        text="Custom-check files (all subsets of cdps/triggers_pht/rdh_version with values equal to, below and above the truth; absent/commented keys; all-default file vs no file; OB chip count/orders on planned frames) and trigger period P vs internal-trigger TDH sequences generated at P' with jitter and wrap-around: [E9001]/[E9002]/[E10]/[E9004]/[E9005]/[E45] iff configured != observed, nothing else, exit status accordingly; under seeded schedules. Trigger-period workloads include frames split over two pages and configured periods of a whole orbit and more, and period 0.",
        note="Ground truth from the generator and the independent walker; E45 model: BC distance mod 3564 to the previous internal-trigger TDH of the stave."),
}

NOT_BUILT_REASON = "check not built yet in this session (planned in DESIGN.md §3); not claimed until its machinery exists"
NA = {
    "C11": "stateless predicate of a single 80-bit value: no schedule, clock, I/O, fault, history or second party to simulate; sweeping IDs and bit patterns is input enumeration, not simulation (DESIGN.md §4)",
}

def main():
    props = [json.loads(l) for l in open(os.path.join(HERE, "properties.jsonl"))]
    checks = []
    na = []
    for p in props:
        pid = p["id"]
        if pid in CLAIMED:
            c = CLAIMED[pid]
            checks.append({
                "property_id": pid,
                "quick_cmd": f"./check {pid} quick",
                "thorough_cmd": f"./check {pid} thorough",
                "evidence_file": f"/verif/evidence/{pid}.json",
                "replay_cmd_template": "./check replay {path}",
                "engine": "fpsim",
                "level_claimed": {"category": c["level"], "text": c["text"], "design_ref": c["ref"]},
                "level_note": c["note"],
                "technique": TECH,
            })
        elif pid in NA:
            na.append({"property_id": pid, "reason": NA[pid]})
        else:
            na.append({"property_id": pid, "reason": NOT_BUILT_REASON})
    hooks_commits = subprocess.run(["git", "-C", "/repo", "log", "--format=%h %s", "--grep=^verif hook"],
                                   capture_output=True, text=True).stdout.strip().splitlines()
    manifest = {
        "version": 1,
        "setup_cmd": "./check build",
        "hooks": {
            "guard": "--cfg fastpasta_verif",
            "enable": "RUSTFLAGS='--cfg fastpasta_verif' via /verif/sim/.cargo/config.toml; the shadow workspace /verif/sim compiles /repo's sources in place with crossbeam-channel/flume replaced by the simulator's shims",
            "baseline_off_cmd": "cd /repo && cargo nextest run --workspace --no-fail-fast --test-threads 8 --offline || cargo test --workspace --no-fail-fast --offline",
            "source_commits": [c.split()[0] for c in hooks_commits],
            "add_only": True,
        },
        "engines": [{
            "name": "fpsim",
            "path": "/verif/sim",
            "serves_properties": [c["property_id"] for c in checks],
            "kind_free_text": "in-process deterministic simulator: real fastPASTA library code on real OS threads released one at a time by a seeded scheduler (channel shims + guarded thread hooks), read/write seam at the libc boundary, fork-per-execution, seeded workload/fault generation (itsgen), oracles over recorded histories, minimisation, replay files",
        }],
        "checks": checks,
        "not_applicable": na,
        "notes": "Exit codes: 0 property held on everything explored; 1 with `VIOLATION property=<id> replay=<path>`; 2 harness error (build failure, unmanaged thread, lost control). Known findings: /verif/known_findings.json. Default VERIF_SEED=1.",
    }
    with open(os.path.join(HERE, "MANIFEST.json"), "w") as f:
        json.dump(manifest, f, indent=1)
        f.write("\n")

if __name__ == "__main__":
    main()
